/-
Helper lemmas (agent model) — see the Props file that imports this module.
Retransmission timing (C06): characterisation of `reqPoll`, geometric sums of the configured
intervals, the invariants `KeysNodup` and `AllSent` of reachable states, and the characterisation of
`agentPoll` (`ready`, `minWait`).
-/
import StunVerif.Lemmas.AgentMap
namespace StunVerif.Agent

/-! ### one request -/

theorem reqPoll_recvCancelled (r : Req) (now : Nat) (h : r.recvCancelled = true) :
    reqPoll r now = (r, .cancelled) := by
  simp [reqPoll, h]

theorem reqPoll_none (r : Req) (now : Nat) (hc : r.recvCancelled = false) (hl : r.lastSend = none) :
    reqPoll r now =
      if r.sendCancelled then (r, .cancelled) else ({ r with lastSend := some now }, .sendData) := by
  simp [reqPoll, hc, hl]

theorem reqPoll_some (r : Req) (now h : Nat) (hc : r.recvCancelled = false) (hl : r.lastSend = some h) :
    reqPoll r now =
      if r.timeouts.length ≤ r.timeoutI then
        (if now < h + msNs r.lastRto then (r, .waitUntil (h + msNs r.lastRto)) else (r, .timedOut))
      else if now < h + msNs (r.timeouts.getD r.timeoutI 0) then
        (r, .waitUntil (h + msNs (r.timeouts.getD r.timeoutI 0)))
      else if r.sendCancelled then ({ r with timeoutI := r.timeoutI + 1 }, .cancelled)
      else ({ r with timeoutI := r.timeoutI + 1, lastSend := some now }, .sendData) := by
  simp [reqPoll, hc, hl]

theorem deadline_some (r : Req) (h : Nat) (hl : r.lastSend = some h) :
    r.deadline = some (h + msNs (if r.timeoutI < r.timeouts.length
      then r.timeouts.getD r.timeoutI 0 else r.lastRto)) := by
  simp [Req.deadline, hl]

/-- a transmitted request answers `waitUntil t` exactly when it is not cancelled, `t` is its
    deadline and the deadline lies in the future -/
theorem reqPoll_wait_iff (r : Req) (now t : Nat) (hl : r.lastSend.isSome = true) :
    (reqPoll r now).2 = .waitUntil t ↔ r.recvCancelled = false ∧ r.deadline = some t ∧ now < t := by
  cases hc : r.recvCancelled with
  | true => simp [reqPoll_recvCancelled r now hc]
  | false =>
    obtain ⟨h, hh⟩ : ∃ h : Nat, r.lastSend = some h := Option.isSome_iff_exists.mp hl
    rw [reqPoll_some r now h hc hh, deadline_some r h hh]
    by_cases hk : r.timeouts.length ≤ r.timeoutI
    · have hk' : ¬ r.timeoutI < r.timeouts.length := by omega
      rw [if_pos hk, if_neg hk']
      by_cases hn : now < h + msNs r.lastRto
      · rw [if_pos hn]
        constructor
        · intro e
          have e' : h + msNs r.lastRto = t := by simpa using e
          subst e'
          exact ⟨rfl, rfl, hn⟩
        · rintro ⟨-, e, -⟩
          have e' : h + msNs r.lastRto = t := by simpa using e
          subst e'
          rfl
      · rw [if_neg hn]
        constructor
        · intro e
          simp at e
        · rintro ⟨-, e, hlt⟩
          have e' : h + msNs r.lastRto = t := by simpa using e
          omega
    · have hk' : r.timeoutI < r.timeouts.length := by omega
      rw [if_neg hk, if_pos hk']
      by_cases hn : now < h + msNs (r.timeouts.getD r.timeoutI 0)
      · rw [if_pos hn]
        constructor
        · intro e
          have e' : h + msNs (r.timeouts.getD r.timeoutI 0) = t := by simpa using e
          subst e'
          exact ⟨rfl, rfl, hn⟩
        · rintro ⟨-, e, -⟩
          have e' : h + msNs (r.timeouts.getD r.timeoutI 0) = t := by simpa using e
          subst e'
          rfl
      · rw [if_neg hn]
        constructor
        · intro e
          by_cases hsc : r.sendCancelled = true
          · simp [hsc] at e
          · simp [hsc] at e
        · rintro ⟨-, e, hlt⟩
          have e' : h + msNs (r.timeouts.getD r.timeoutI 0) = t := by simpa using e
          omega

theorem reqPoll_wait_fst (r : Req) (now t : Nat) (h : (reqPoll r now).2 = .waitUntil t) :
    (reqPoll r now).1 = r := by
  cases hc : r.recvCancelled with
  | true => simp [reqPoll_recvCancelled r now hc]
  | false =>
    cases hl : r.lastSend with
    | none =>
      rw [reqPoll_none r now hc hl] at h
      by_cases hsc : r.sendCancelled = true
      · simp [hsc] at h
      · simp [hsc] at h
    | some u =>
      rw [reqPoll_some r now u hc hl] at h ⊢
      by_cases hk : r.timeouts.length ≤ r.timeoutI
      · rw [if_pos hk] at h ⊢
        by_cases hn : now < u + msNs r.lastRto
        · rw [if_pos hn]
        · rw [if_neg hn]
      · rw [if_neg hk] at h ⊢
        by_cases hn : now < u + msNs (r.timeouts.getD r.timeoutI 0)
        · rw [if_pos hn]
        · rw [if_neg hn] at h
          by_cases hsc : r.sendCancelled = true
          · simp [hsc] at h
          · simp [hsc] at h

/-- a request handed out at `now` records `now` as its last transmission -/
theorem reqPoll_sendData_lastSend (r : Req) (now : Nat) (h : (reqPoll r now).2 = .sendData) :
    (reqPoll r now).1.lastSend = some now := by
  cases hc : r.recvCancelled with
  | true => simp [reqPoll_recvCancelled r now hc] at h
  | false =>
    cases hl : r.lastSend with
    | none =>
      rw [reqPoll_none r now hc hl] at h ⊢
      by_cases hsc : r.sendCancelled = true
      · simp [hsc] at h
      · simp [hsc]
    | some t =>
      rw [reqPoll_some r now t hc hl] at h ⊢
      by_cases hk : r.timeouts.length ≤ r.timeoutI
      · rw [if_pos hk] at h
        by_cases hn : now < t + msNs r.lastRto
        · rw [if_pos hn] at h; simp at h
        · rw [if_neg hn] at h; simp at h
      · rw [if_neg hk] at h ⊢
        by_cases hn : now < t + msNs (r.timeouts.getD r.timeoutI 0)
        · rw [if_pos hn] at h; simp at h
        · rw [if_neg hn] at h ⊢
          by_cases hsc : r.sendCancelled = true
          · simp [hsc] at h
          · simp [hsc]

/-- once `cancel_retransmissions` was called the request is never handed out again -/
theorem reqPoll_sendCancelled (r : Req) (now : Nat) (hs : r.sendCancelled = true) :
    (reqPoll r now).2 ≠ .sendData := by
  cases hc : r.recvCancelled with
  | true => simp [reqPoll_recvCancelled r now hc]
  | false =>
    cases hl : r.lastSend with
    | none => simp [reqPoll_none r now hc hl, hs]
    | some t =>
      rw [reqPoll_some r now t hc hl]
      by_cases hk : r.timeouts.length ≤ r.timeoutI
      · rw [if_pos hk]
        by_cases hn : now < t + msNs r.lastRto
        · rw [if_pos hn]; simp
        · rw [if_neg hn]; simp
      · rw [if_neg hk]
        by_cases hn : now < t + msNs (r.timeouts.getD r.timeoutI 0)
        · rw [if_pos hn]; simp
        · rw [if_neg hn]; simp [hs]

/-! ### configured schedules -/

theorem msNs_add (a b : Nat) : msNs (a + b) = msNs a + msNs b := by
  unfold msNs; omega

theorem two_pow_step (rto k : Nat) : rto * (2 ^ k - 1) + rto * 2 ^ k = rto * (2 ^ (k + 1) - 1) := by
  have hp : 0 < 2 ^ k := Nat.pow_pos (by decide)
  obtain ⟨m, hm⟩ : ∃ m, 2 ^ k = m + 1 := ⟨2 ^ k - 1, by omega⟩
  rw [Nat.pow_succ, hm, ← Nat.mul_add]
  congr 1
  omega

theorem geom_sum (rto n : Nat) :
    ((List.range n).map (fun i => rto * 2 ^ i)).sum = rto * (2 ^ n - 1) := by
  induction n with
  | zero => simp
  | succ n ih =>
    rw [List.range_succ, List.map_append, List.sum_append, ih]
    simp only [List.map_cons, List.map_nil, List.sum_cons, List.sum_nil, Nat.add_zero]
    exact two_pow_step rto n

theorem getD_map_range (f : Nat → Nat) (n k : Nat) (hk : k < n) :
    ((List.range n).map f).getD k 0 = f k := by
  simp [List.getD_eq_getElem?_getD, hk]

theorem on_time_schedule (r0 : Req) (rto n last : Nat) (t0 : Nat)
    (hc : r0.recvCancelled = false) (hs : r0.sendCancelled = false) :
    let r := configureReq .udp r0 rto n last
    let st (k : Nat) : Req := { r with timeoutI := k, lastSend := some (t0 + msNs (rto * (2 ^ k - 1))) }
    (∀ k, k < n → reqPoll (st k) (t0 + msNs (rto * (2 ^ (k + 1) - 1))) = (st (k + 1), .sendData)) ∧
    reqPoll (st n) (t0 + msNs (rto * (2 ^ n - 1)) + msNs last) = (st n, .timedOut) := by
  intro r st
  have hlen : r.timeouts.length = n := by simp [r, configureReq]
  refine ⟨fun k hk => ?_, ?_⟩
  · have hget : (st k).timeouts.getD k 0 = rto * 2 ^ k := getD_map_range _ n k hk
    rw [reqPoll_some (st k) _ (t0 + msNs (rto * (2 ^ k - 1))) hc rfl]
    have h1 : ¬ (st k).timeouts.length ≤ (st k).timeoutI := by
      show ¬ r.timeouts.length ≤ k
      omega
    rw [if_neg h1]
    have h2 : (t0 + msNs (rto * (2 ^ k - 1))) + msNs ((st k).timeouts.getD (st k).timeoutI 0)
        = t0 + msNs (rto * (2 ^ (k + 1) - 1)) := by
      show (t0 + msNs (rto * (2 ^ k - 1))) + msNs ((st k).timeouts.getD k 0) = _
      rw [hget, Nat.add_assoc, ← msNs_add, two_pow_step]
    rw [h2, if_neg (Nat.lt_irrefl _)]
    have h3 : (st k).sendCancelled = false := hs
    rw [if_neg (by rw [h3]; decide)]
  · rw [reqPoll_some (st n) _ (t0 + msNs (rto * (2 ^ n - 1))) hc rfl]
    have h1 : (st n).timeouts.length ≤ (st n).timeoutI := by
      show r.timeouts.length ≤ n
      omega
    rw [if_pos h1]
    have h2 : (st n).lastRto = last := rfl
    rw [h2, if_neg (Nat.lt_irrefl _)]

/-! ### counting retransmissions -/

theorem reqPolls_cons (r : Req) (now : Nat) (nows : List Nat) :
    reqPolls r (now :: nows) = (reqPoll r now).2 :: reqPolls (reqPoll r now).1 nows := rfl

/-- one poll of a transmitted, not send-cancelled request: either the request is unchanged and the
    reply is not a hand-out (and is a time-out only when no interval is left), or the request is
    handed out and one interval is consumed -/
theorem reqPoll_count_cases (r : Req) (now : Nat) (hl : r.lastSend.isSome = true)
    (hs : r.sendCancelled = false) :
    ((reqPoll r now).1 = r ∧ (reqPoll r now).2 ≠ .sendData ∧
      ((reqPoll r now).2 = .timedOut → r.timeouts.length ≤ r.timeoutI)) ∨
    ((reqPoll r now).2 = .sendData ∧ r.timeoutI < r.timeouts.length ∧
      (reqPoll r now).1.timeoutI = r.timeoutI + 1 ∧ (reqPoll r now).1.timeouts = r.timeouts ∧
      (reqPoll r now).1.lastSend.isSome = true ∧ (reqPoll r now).1.sendCancelled = false) := by
  cases hc : r.recvCancelled with
  | true => left; simp [reqPoll_recvCancelled r now hc]
  | false =>
    obtain ⟨h, hh⟩ : ∃ h : Nat, r.lastSend = some h := Option.isSome_iff_exists.mp hl
    rw [reqPoll_some r now h hc hh]
    by_cases hk : r.timeouts.length ≤ r.timeoutI
    · rw [if_pos hk]
      left
      by_cases hn : now < h + msNs r.lastRto
      · rw [if_pos hn]; simp
      · rw [if_neg hn]; simp [hk]
    · rw [if_neg hk]
      by_cases hn : now < h + msNs (r.timeouts.getD r.timeoutI 0)
      · rw [if_pos hn]; left; simp
      · rw [if_neg hn]
        right
        simp [hs]
        omega

theorem retransmit_count (r : Req) (nows : List Nat) (hl : r.lastSend.isSome = true)
    (hs : r.sendCancelled = false) (hk : r.timeoutI ≤ r.timeouts.length) :
    ((reqPolls r nows).filter (· = .sendData)).length ≤ r.timeouts.length - r.timeoutI ∧
    ∀ i, (reqPolls r nows)[i]? = some .timedOut →
      (((reqPolls r nows).take i).filter (· = .sendData)).length = r.timeouts.length - r.timeoutI := by
  induction nows generalizing r with
  | nil => simp [reqPolls]
  | cons now nows ih =>
    rw [reqPolls_cons]
    rcases reqPoll_count_cases r now hl hs with ⟨h1, h2, h3⟩ | ⟨h1, h2, h3, h4, h5, h6⟩
    · rw [h1]
      have ih' := ih r hl hs hk
      refine ⟨?_, ?_⟩
      · rw [List.filter_cons_of_neg (by simpa using h2)]
        exact ih'.1
      · intro i hi
        cases i with
        | zero =>
          have : (reqPoll r now).2 = .timedOut := by simpa using hi
          have := h3 this
          simp
          omega
        | succ i =>
          rw [List.take_succ_cons, List.filter_cons_of_neg (by simpa using h2)]
          exact ih'.2 i (by simpa using hi)
    · have ih' := ih (reqPoll r now).1 h5 h6 (by rw [h3, h4]; omega)
      rw [h3, h4] at ih'
      refine ⟨?_, ?_⟩
      · rw [List.filter_cons_of_pos (by simpa using h1), List.length_cons]
        have := ih'.1
        omega
      · intro i hi
        cases i with
        | zero =>
          have : (reqPoll r now).2 = .timedOut := by simpa using hi
          rw [h1] at this
          cases this
        | succ i =>
          rw [List.take_succ_cons, List.filter_cons_of_pos (by simpa using h1), List.length_cons]
          have := ih'.2 i (by simpa using hi)
          omega

/-! ### association lists -/

theorem lookup_mem (out : List (Nat × Req)) (t : Nat) (r : Req) (h : lookup out t = some r) :
    (t, r) ∈ out := by
  induction out with
  | nil => simp at h
  | cons p out ih =>
    rw [lookup_cons] at h
    by_cases hp : p.1 = t
    · rw [if_pos hp] at h
      have : p = (t, r) := Prod.ext hp (by simpa using h)
      rw [this]; exact List.mem_cons_self
    · rw [if_neg hp] at h
      exact List.mem_cons_of_mem _ (ih h)

theorem lookup_of_mem_nodup (out : List (Nat × Req)) (p : Nat × Req)
    (hn : (out.map (·.1)).Nodup) (hp : p ∈ out) : lookup out p.1 = some p.2 := by
  induction out with
  | nil => simp at hp
  | cons q out ih =>
    rw [List.map_cons, List.nodup_cons] at hn
    rw [lookup_cons]
    rcases List.mem_cons.mp hp with e | hm
    · rw [e]; simp
    · have hne : ¬ q.1 = p.1 := by
        intro e
        exact hn.1 (e ▸ List.mem_map_of_mem hm)
      rw [if_neg hne]
      exact ih hn.2 hm

theorem mem_remove (out : List (Nat × Req)) (t : Nat) (p : Nat × Req) (h : p ∈ remove out t) :
    p ∈ out := (List.mem_filter.mp h).1

theorem mem_update (out : List (Nat × Req)) (t : Nat) (f : Req → Req) (p : Nat × Req)
    (h : p ∈ update out t f) : p ∈ out ∨ ∃ r, (t, r) ∈ out ∧ p = (t, f r) := by
  unfold update at h
  obtain ⟨q, hq, rfl⟩ := List.mem_map.mp h
  by_cases hqt : q.1 = t
  · right
    refine ⟨q.2, ?_, by simp [hqt]⟩
    rw [← hqt]; exact hq
  · left; simpa [hqt] using hq

theorem nodup_remove (out : List (Nat × Req)) (t : Nat) (hn : (out.map (·.1)).Nodup) :
    ((remove out t).map (·.1)).Nodup := by
  rw [keys_remove]
  exact hn.filter _

theorem nodup_insert (out : List (Nat × Req)) (t : Nat) (r : Req) (hn : (out.map (·.1)).Nodup) :
    ((insert out t r).map (·.1)).Nodup := by
  unfold insert
  rw [List.map_cons, List.nodup_cons]
  refine ⟨?_, nodup_remove out t hn⟩
  rw [keys_remove]
  simp

/-! ### the shape of one step -/

theorem validatedPeer_out_time (s : State) (a : SockAddr) : (validatedPeer s a).out = s.out := by
  unfold validatedPeer
  split <;> rfl

/-- the transaction `agentPoll` decides to serve_time -/
def chosen (s : State) (now : Nat) (pick : Option Nat) : Option Nat :=
  match pick with
    | some t => if (ready s now).contains t then some t else (ready s now).head?
    | none => (ready s now).head?

/-- serving one outstanding request -/
def serve_time (s : State) (now : Nat) (tid : Nat) (r : Req) : State × Out :=
  match (reqPoll r now).2 with
  | .sendData => ({ s with out := update s.out tid fun _ => (reqPoll r now).1 },
      .transmit (some tid) (mkTransmit s (reqPoll r now).1))
  | .timedOut => ({ s with out := remove s.out tid }, .timedOut tid)
  | .cancelled => ({ s with out := remove s.out tid }, .cancelled tid)
  | .waitUntil t => (s, .waitUntil t)

theorem agentPoll_eq_time (s : State) (now : Nat) (pick : Option Nat) :
    agentPoll s now pick =
      match chosen s now pick with
      | none => (s, .waitUntil ((minWait s now).getD (now + msNs 3600000)))
      | some tid =>
        match lookup s.out tid with
        | none => (s, .waitUntil (now + msNs 3600000))
        | some r => serve_time s now tid r := by
  unfold agentPoll chosen serve_time
  rfl

theorem step_sendReq_eq (s : State) (tid : Nat) (bytes : Bytes) (hadCreds : Bool) (to : SockAddr)
    (now : Nat) :
    step s (.sendReq tid bytes hadCreds to now) =
      if (lookup s.out tid).isSome then (s, .inProgress) else
      match (reqPoll (Req.new s.transport bytes hadCreds to) now).2 with
      | .sendData => ({ s with out := insert s.out tid (reqPoll (Req.new s.transport bytes hadCreds to) now).1 },
          .transmit (some tid) (mkTransmit s (reqPoll (Req.new s.transport bytes hadCreds to) now).1))
      | _ => (s, .protocolViolation) := by
  unfold step
  rfl

/-- how one call may change the table of outstanding requests -/
def OutShape (out out' : List (Nat × Req)) : Prop :=
    out' = out ∨
    (∃ tid r, r.lastSend.isSome = true ∧ out' = insert out tid r) ∨
    (∃ tid, out' = remove out tid) ∨
    (∃ tid r, (tid, r) ∈ out ∧ out' = insert (remove out tid) tid r) ∨
    (∃ tid f, (∀ r : Req, r.lastSend.isSome = true → (f r).lastSend.isSome = true) ∧
      out' = update out tid f)

theorem step_out (s : State) (op : Op) : OutShape s.out (step s op).1.out := by
  cases op with
  | sendReq tid bytes hadCreds to now =>
    rw [step_sendReq_eq]
    by_cases h : (lookup s.out tid).isSome = true
    · rw [if_pos h]; left; rfl
    · rw [if_neg h]
      split
      · next hsd =>
        right; left
        exact ⟨tid, _, by rw [reqPoll_sendData_lastSend _ _ hsd]; rfl, rfl⟩
      · left; rfl
  | sendOther bytes to => left; rfl
  | handle m src =>
    unfold step
    cases hr : m.isResponse with
    | false =>
      simp only [hr, Bool.false_eq_true, ↓reduceIte]
      left
      rw [validatedPeer_out_time]
    | true =>
      simp only [hr, ↓reduceIte]
      cases hl : lookup s.out m.tid with
      | none => left; rfl
      | some r =>
        have hmem := lookup_mem _ _ _ hl
        simp only []
        cases hcr : r.hadCreds with
        | false =>
          simp only [Bool.false_eq_true, ↓reduceIte]
          right; right; left
          exact ⟨m.tid, by rw [validatedPeer_out_time]⟩
        | true =>
          simp only [↓reduceIte]
          cases hk : s.remoteCreds with
          | none => right; right; right; left; exact ⟨m.tid, r, hmem, rfl⟩
          | some k =>
            simp only []
            cases hv : m.validUnder k with
            | true =>
              simp only [↓reduceIte]
              right; right; left
              exact ⟨m.tid, by rw [validatedPeer_out_time]⟩
            | false =>
              simp only [Bool.false_eq_true, ↓reduceIte]
              right; right; right; left; exact ⟨m.tid, r, hmem, rfl⟩
  | poll now pick =>
    show OutShape s.out (agentPoll s now pick).1.out
    rw [agentPoll_eq_time]
    cases chosen s now pick with
    | none => left; rfl
    | some tid =>
      simp only []
      cases hl : lookup s.out tid with
      | none => left; rfl
      | some r =>
        simp only []
        unfold serve_time
        split
        · next hsd =>
          right; right; right; right
          exact ⟨tid, fun _ => (reqPoll r now).1,
            fun _ _ => by rw [reqPoll_sendData_lastSend _ _ hsd]; rfl, rfl⟩
        · right; right; left; exact ⟨tid, rfl⟩
        · right; right; left; exact ⟨tid, rfl⟩
        · left; rfl
  | cancel tid =>
    right; right; right; right
    exact ⟨tid, fun r => { r with sendCancelled := true, recvCancelled := true }, fun _ h => h, rfl⟩
  | cancelRtx tid =>
    right; right; right; right
    exact ⟨tid, fun r => { r with sendCancelled := true }, fun _ h => h, rfl⟩
  | configure tid rto n last =>
    right; right; right; right
    refine ⟨tid, fun r => configureReq s.transport r rto n last, fun r h => ?_, rfl⟩
    unfold configureReq
    split <;> exact h
  | setRemoteCreds k => left; rfl

/-! ### invariants of reachable states -/

theorem keysNodup_step_time (s : State) (op : Op) (h : KeysNodup s) : KeysNodup (step s op).1 := by
  unfold KeysNodup at h ⊢
  rcases step_out s op with e | ⟨tid, r, -, e⟩ | ⟨tid, e⟩ | ⟨tid, r, -, e⟩ | ⟨tid, f, -, e⟩ <;> rw [e]
  · exact h
  · exact nodup_insert _ _ _ h
  · exact nodup_remove _ _ h
  · exact nodup_insert _ _ _ (nodup_remove _ _ h)
  · rw [keys_update]; exact h

theorem keysNodup_of_reachable_time (s : State) (hr : Reachable s) : KeysNodup s :=
  Reachable.induction (P := KeysNodup) (fun _ _ => List.nodup_nil) keysNodup_step_time hr

theorem allSent_step (s : State) (op : Op) (h : AllSent s) : AllSent (step s op).1 := by
  unfold AllSent at h ⊢
  intro p hp
  rcases step_out s op with e | ⟨tid, r, hr, e⟩ | ⟨tid, e⟩ | ⟨tid, r, hr, e⟩ | ⟨tid, f, hf, e⟩ <;>
    rw [e] at hp
  · exact h p hp
  · rcases List.mem_cons.mp hp with e' | hm
    · rw [e']; exact hr
    · exact h p (mem_remove _ _ _ hm)
  · exact h p (mem_remove _ _ _ hp)
  · rcases List.mem_cons.mp hp with e' | hm
    · rw [e']; exact h _ hr
    · exact h p (mem_remove _ _ _ (mem_remove _ _ _ hm))
  · rcases mem_update _ _ _ _ hp with hm | ⟨r, hm, e'⟩
    · exact h p hm
    · rw [e']; exact hf r (h _ hm)

theorem allSent_of_reachable (s : State) (hr : Reachable s) : AllSent s :=
  Reachable.induction (P := AllSent) (fun _ _ p hp => by cases hp) allSent_step hr

/-! ### `ready`, `minWait`, `agentPoll` -/

theorem mem_ready_iff (s : State) (now tid : Nat) :
    tid ∈ ready s now ↔ ∃ p ∈ s.out, p.1 = tid ∧ ∀ t, (reqPoll p.2 now).2 ≠ .waitUntil t := by
  unfold ready
  rw [List.mem_map]
  constructor
  · rintro ⟨p, hp, rfl⟩
    rw [List.mem_filter] at hp
    refine ⟨p, hp.1, rfl, ?_⟩
    intro t e
    have h2 := hp.2
    simp only [e] at h2
    cases h2
  · rintro ⟨p, hp, rfl, hw⟩
    refine ⟨p, List.mem_filter.mpr ⟨hp, ?_⟩, rfl⟩
    show (match (reqPoll p.2 now).2 with | .waitUntil _ => false | _ => true) = true
    generalize (reqPoll p.2 now).2 = x at hw
    cases x with
    | waitUntil t => exact absurd rfl (hw t)
    | _ => rfl

theorem chosen_eq_none (s : State) (now : Nat) (pick : Option Nat) (h : chosen s now pick = none) :
    ready s now = [] := by
  unfold chosen at h
  cases pick with
  | none => simpa using h
  | some t =>
    simp only [] at h
    by_cases hc : (ready s now).contains t = true
    · rw [if_pos hc] at h; cases h
    · rw [if_neg hc] at h; simpa using h

theorem chosen_eq_some (s : State) (now : Nat) (pick : Option Nat) (tid : Nat)
    (h : chosen s now pick = some tid) : tid ∈ ready s now := by
  unfold chosen at h
  cases pick with
  | none => exact List.mem_of_mem_head? (by simpa using h)
  | some t =>
    simp only [] at h
    by_cases hc : (ready s now).contains t = true
    · rw [if_pos hc] at h
      have : t = tid := by simpa using h
      rw [← this]; simpa using hc
    · rw [if_neg hc] at h
      exact List.mem_of_mem_head? (by simpa using h)

/-- `agentPoll` either finds every request waiting and reports `minWait`, or serves a request
    that is not waiting -/
theorem agentPoll_cases_time (s : State) (hn : KeysNodup s) (now : Nat) (pick : Option Nat) :
    ((∀ p ∈ s.out, ∃ t, (reqPoll p.2 now).2 = .waitUntil t) ∧
      agentPoll s now pick = (s, .waitUntil ((minWait s now).getD (now + msNs 3600000)))) ∨
    (∃ tid r, lookup s.out tid = some r ∧ (∀ t, (reqPoll r now).2 ≠ .waitUntil t) ∧
      agentPoll s now pick = serve_time s now tid r) := by
  rw [agentPoll_eq_time]
  cases hch : chosen s now pick with
  | none =>
    left
    refine ⟨fun p hp => ?_, rfl⟩
    have hre := chosen_eq_none s now pick hch
    cases hx : (reqPoll p.2 now).2 with
    | waitUntil t => exact ⟨t, rfl⟩
    | _ =>
      have : p.1 ∈ ready s now :=
        (mem_ready_iff s now p.1).mpr ⟨p, hp, rfl, fun t e => by rw [hx] at e; cases e⟩
      rw [hre] at this
      cases this
  | some tid =>
    right
    obtain ⟨p, hp, rfl, hw⟩ := (mem_ready_iff s now tid).mp (chosen_eq_some s now pick tid hch)
    have hl := lookup_of_mem_nodup s.out p hn hp
    exact ⟨p.1, p.2, hl, hw, by simp only [hl]⟩

theorem serve_event (s : State) (now tid : Nat) (r : Req)
    (hw : ∀ t, (reqPoll r now).2 ≠ .waitUntil t) :
    match (serve_time s now tid r).2 with
    | .transmit (some _) _ => True
    | .timedOut _ => True
    | .cancelled _ => True
    | _ => False := by
  unfold serve_time
  cases hx : (reqPoll r now).2 with
  | waitUntil t => exact absurd hx (hw t)
  | sendData => exact True.intro
  | timedOut => exact True.intro
  | cancelled => exact True.intro

theorem serve_ne_wait (s : State) (now tid : Nat) (r : Req)
    (hw : ∀ t, (reqPoll r now).2 ≠ .waitUntil t) (t : Nat) :
    (serve_time s now tid r).2 ≠ .waitUntil t := by
  have := serve_event s now tid r hw
  intro e
  rw [e] at this
  exact this

/-- one step of the `minWait` fold -/
def minStep_time (now : Nat) (acc : Option Time) (p : Nat × Req) : Option Time :=
  match (reqPoll p.2 now).2 with
  | .waitUntil t => (match acc with
    | none => some t
    | some a => if t < a then some t else some a)
  | _ => acc

theorem minWait_eq_time (s : State) (now : Nat) : minWait s now = s.out.foldl (minStep_time now) none := rfl

theorem minStep_some (now a : Nat) (p : Nat × Req) :
    ∃ a' : Nat, minStep_time now (some a) p = some a' ∧ a' ≤ a ∧
      (a' = a ∨ (reqPoll p.2 now).2 = .waitUntil a') ∧
      ∀ d : Nat, (reqPoll p.2 now).2 = .waitUntil d → a' ≤ d := by
  unfold minStep_time
  cases hx : (reqPoll p.2 now).2 with
  | waitUntil t =>
    have t' : Nat := t
    by_cases hlt : t < a
    · refine ⟨t, by simp [hlt], Nat.le_of_lt hlt, Or.inr rfl, fun d hd => ?_⟩
      cases hd; exact Nat.le_refl _
    · refine ⟨a, by simp [hlt], Nat.le_refl _, Or.inl rfl, fun d hd => ?_⟩
      cases hd; exact Nat.not_lt.mp hlt
  | sendData => exact ⟨a, rfl, Nat.le_refl _, Or.inl rfl, fun d hd => by cases hd⟩
  | timedOut => exact ⟨a, rfl, Nat.le_refl _, Or.inl rfl, fun d hd => by cases hd⟩
  | cancelled => exact ⟨a, rfl, Nat.le_refl _, Or.inl rfl, fun d hd => by cases hd⟩

theorem foldl_minStep_some (now : Nat) (l : List (Nat × Req)) (a : Nat) :
    ∃ m : Nat, l.foldl (minStep_time now) (some a) = some m ∧ m ≤ a ∧
      (m = a ∨ ∃ p ∈ l, (reqPoll p.2 now).2 = .waitUntil m) ∧
      ∀ p ∈ l, ∀ d : Nat, (reqPoll p.2 now).2 = .waitUntil d → m ≤ d := by
  induction l generalizing a with
  | nil => exact ⟨a, rfl, Nat.le_refl _, Or.inl rfl, fun p hp => by cases hp⟩
  | cons q l ih =>
    obtain ⟨a', h1, h2, h3, h4⟩ := minStep_some now a q
    obtain ⟨m, k1, k2, k3, k4⟩ := ih a'
    refine ⟨m, by rw [List.foldl_cons, h1, k1], Nat.le_trans k2 h2, ?_, ?_⟩
    · rcases k3 with e | ⟨p, hp, hw⟩
      · rcases h3 with e' | hw
        · left; rw [e, e']
        · right; exact ⟨q, List.mem_cons_self, by rw [e]; exact hw⟩
      · right; exact ⟨p, List.mem_cons_of_mem _ hp, hw⟩
    · intro p hp d hd
      rcases List.mem_cons.mp hp with e | hm
      · subst e; exact Nat.le_trans k2 (h4 d hd)
      · exact k4 p hm d hd

/-- with every outstanding request waiting (and at least one), `minWait` is the least wake-up -/
theorem minWait_spec (s : State) (now : Nat) (hne : s.out ≠ [])
    (hall : ∀ p ∈ s.out, ∃ t, (reqPoll p.2 now).2 = .waitUntil t) :
    ∃ m : Nat, minWait s now = some m ∧ (∃ p ∈ s.out, (reqPoll p.2 now).2 = .waitUntil m) ∧
      ∀ p ∈ s.out, ∀ d : Nat, (reqPoll p.2 now).2 = .waitUntil d → m ≤ d := by
  rw [minWait_eq_time]
  cases hout : s.out with
  | nil => exact absurd hout hne
  | cons q l =>
    obtain ⟨t0, ht0⟩ := hall q (by rw [hout]; exact List.mem_cons_self)
    have hq : minStep_time now none q = some t0 := by unfold minStep_time; rw [ht0]
    obtain ⟨m, k1, k2, k3, k4⟩ := foldl_minStep_some now l t0
    refine ⟨m, by rw [List.foldl_cons, hq, k1], ?_, ?_⟩
    · rcases k3 with e | ⟨p, hp, hw⟩
      · exact ⟨q, List.mem_cons_self, by rw [e]; exact ht0⟩
      · exact ⟨p, List.mem_cons_of_mem _ hp, hw⟩
    · intro p hp d hd
      rcases List.mem_cons.mp hp with e | hm
      · subst e
        rw [ht0] at hd
        cases hd
        exact k2
      · exact k4 p hm d hd

/-- `WaitUntil(t)` from a poll with requests outstanding -/
theorem poll_wait_spec (s : State) (hn : KeysNodup s) (ha : AllSent s) (now t : Nat)
    (pick : Option Nat) (hne : s.out ≠ []) (h : (agentPoll s now pick).2 = .waitUntil t) :
    agentPoll s now pick = (s, .waitUntil t) ∧ now < t ∧
    (∃ p ∈ s.out, p.2.deadline = some t) ∧
    (∀ p ∈ s.out, p.2.recvCancelled = false ∧ ∃ d : Nat, p.2.deadline = some d ∧ t ≤ d) := by
  rcases agentPoll_cases_time s hn now pick with ⟨hall, e⟩ | ⟨tid, r, -, hw, e⟩
  · obtain ⟨m, k1, ⟨p, hp, hpw⟩, k3⟩ := minWait_spec s now hne hall
    rw [e, k1] at h
    have hm : m = t := by simpa using h
    subst hm
    have hp' := (reqPoll_wait_iff p.2 now m (ha p hp)).mp hpw
    refine ⟨by rw [e, k1]; rfl, hp'.2.2, ⟨p, hp, hp'.2.1⟩, fun q hq => ?_⟩
    obtain ⟨d, hd⟩ := hall q hq
    have hq' := (reqPoll_wait_iff q.2 now d (ha q hq)).mp hd
    exact ⟨hq'.1, d, hq'.2.1, k3 q hq d hd⟩
  · rw [e] at h
    exact absurd h (serve_ne_wait s now tid r hw t)

/-- if every outstanding request is still before its deadline the poll only waits -/
theorem poll_wait_of (s : State) (hn : KeysNodup s) (ha : AllSent s) (now : Nat) (pick : Option Nat)
    (hall : ∀ p ∈ s.out, p.2.recvCancelled = false ∧ ∃ d : Nat, p.2.deadline = some d ∧ now < d) :
    ∃ t : Nat, (agentPoll s now pick).2 = .waitUntil t := by
  rcases agentPoll_cases_time s hn now pick with ⟨-, e⟩ | ⟨tid, r, hl, hw, -⟩
  · exact ⟨_, by rw [e]⟩
  · have hm := lookup_mem _ _ _ hl
    obtain ⟨hc, d, hd, hlt⟩ := hall _ hm
    exact absurd ((reqPoll_wait_iff r now d (ha _ hm)).mpr ⟨hc, hd, hlt⟩) (hw d)

theorem poll_wait_stable (s : State) (hn : KeysNodup s) (ha : AllSent s) (now t : Nat)
    (pick : Option Nat) (hne : s.out ≠ []) (h : (agentPoll s now pick).2 = .waitUntil t)
    (now' : Nat) (pick' : Option Nat) (h2 : now' < t) :
    agentPoll s now' pick' = (s, .waitUntil t) := by
  obtain ⟨-, -, ⟨p, hp, hpd⟩, hall⟩ := poll_wait_spec s hn ha now t pick hne h
  obtain ⟨t', ht'⟩ := poll_wait_of s hn ha now' pick' (fun q hq => by
    obtain ⟨hc, d, hd, hle⟩ := hall q hq
    exact ⟨hc, d, hd, Nat.lt_of_lt_of_le h2 hle⟩)
  obtain ⟨e, -, ⟨p', hp', hpd'⟩, hall'⟩ := poll_wait_spec s hn ha now' t' pick' hne ht'
  obtain ⟨-, d, hd, hle⟩ := hall p' hp'
  obtain ⟨-, d', hd', hle'⟩ := hall' p hp
  rw [hpd'] at hd
  rw [hpd] at hd'
  have e1 : t' = d := by simpa using hd
  have e2 : t = d' := by simpa using hd'
  have : t' = t := by omega
  rw [e, this]

theorem poll_wait_then_event (s : State) (hn : KeysNodup s) (ha : AllSent s) (now t : Nat)
    (pick : Option Nat) (hne : s.out ≠ []) (h : (agentPoll s now pick).2 = .waitUntil t)
    (pick' : Option Nat) :
    match (agentPoll s t pick').2 with
    | .transmit (some _) _ => True
    | .timedOut _ => True
    | .cancelled _ => True
    | _ => False := by
  obtain ⟨-, -, ⟨p, hp, hpd⟩, -⟩ := poll_wait_spec s hn ha now t pick hne h
  rcases agentPoll_cases_time s hn t pick' with ⟨hall, -⟩ | ⟨tid, r, -, hw, e⟩
  · obtain ⟨d, hd⟩ := hall p hp
    have := (reqPoll_wait_iff p.2 t d (ha p hp)).mp hd
    rw [hpd] at this
    have e1 : t = d := by simpa using this.2.1
    have := this.2.2
    omega
  · rw [e]
    exact serve_event s t tid r hw

theorem poll_idle (s : State) (now : Nat) (pick : Option Nat) (h : s.out = []) :
    agentPoll s now pick = (s, .waitUntil (now + msNs 3600000)) := by
  have hr : ready s now = [] := by unfold ready; rw [h]; rfl
  have hc : chosen s now pick = none := by
    unfold chosen
    cases pick with
    | none => rw [hr]; rfl
    | some t => rw [hr]; rfl
  rw [agentPoll_eq_time, hc, minWait_eq_time, h]
  rfl

/-! ### an agent with a single outstanding request -/

theorem poll_single (tr : Transport) (loc : SockAddr) (rc : Option Key) (v : List SockAddr)
    (tid : Nat) (r : Req) (now : Nat) (pick : Option Nat) :
    agentPoll ⟨tr, loc, rc, v, [(tid, r)]⟩ now pick = serve_time ⟨tr, loc, rc, v, [(tid, r)]⟩ now tid r := by
  have hn : KeysNodup ⟨tr, loc, rc, v, [(tid, r)]⟩ := by simp [KeysNodup]
  rcases agentPoll_cases_time _ hn now pick with ⟨hall, e⟩ | ⟨tid', r', hl, -, e⟩
  · obtain ⟨m, k1, ⟨p, hp, hpw⟩, -⟩ := minWait_spec _ now (by simp) hall
    have hp' : p = (tid, r) := by simpa using hp
    subst hp'
    rw [e, k1]
    unfold serve_time
    simp only [hpw]
    rfl
  · have hl' : lookup [(tid, r)] tid' = some r' := hl
    rw [lookup_cons] at hl'
    by_cases ht : tid = tid'
    · subst ht
      have : r = r' := by simpa using hl'
      subst this
      exact e
    · simp [ht] at hl'

theorem update_single (tid : Nat) (r : Req) (f : Req → Req) :
    update [(tid, r)] tid f = [(tid, f r)] := by
  simp [update]

theorem remove_single (tid : Nat) (r : Req) : remove [(tid, r)] tid = [] := by
  simp [remove]

theorem poll_single_send (tr : Transport) (loc : SockAddr) (rc : Option Key) (v : List SockAddr)
    (tid : Nat) (r r' : Req) (now : Nat) (pick : Option Nat) (hp : reqPoll r now = (r', .sendData)) :
    step ⟨tr, loc, rc, v, [(tid, r)]⟩ (.poll now pick) =
      (⟨tr, loc, rc, v, [(tid, r')]⟩, .transmit (some tid) ⟨r'.bytes, tr, loc, r'.to⟩) := by
  show agentPoll _ now pick = _
  rw [poll_single]
  unfold serve_time
  simp only [hp, update_single]
  rfl

theorem poll_single_wait (tr : Transport) (loc : SockAddr) (rc : Option Key) (v : List SockAddr)
    (tid : Nat) (r r' : Req) (now t : Nat) (pick : Option Nat)
    (hp : reqPoll r now = (r', .waitUntil t)) :
    step ⟨tr, loc, rc, v, [(tid, r)]⟩ (.poll now pick) =
      (⟨tr, loc, rc, v, [(tid, r)]⟩, .waitUntil t) := by
  show agentPoll _ now pick = _
  rw [poll_single]
  unfold serve_time
  simp only [hp]

theorem poll_single_timeout (tr : Transport) (loc : SockAddr) (rc : Option Key) (v : List SockAddr)
    (tid : Nat) (r r' : Req) (now : Nat) (pick : Option Nat)
    (hp : reqPoll r now = (r', .timedOut)) :
    step ⟨tr, loc, rc, v, [(tid, r)]⟩ (.poll now pick) =
      (⟨tr, loc, rc, v, []⟩, .timedOut tid) := by
  show agentPoll _ now pick = _
  rw [poll_single]
  unfold serve_time
  simp only [hp, remove_single]

theorem trace_cons (s : State) (op : Op) (ops : List Op) :
    trace s (op :: ops) = (op, (step s op).2) :: trace (step s op).1 ops := rfl

theorem trace_nil (s : State) : trace s [] = [] := rfl

/-! ### the default schedules, step by step -/

theorem reqPoll_wait_mid (r : Req) (now h d : Nat) (hc : r.recvCancelled = false)
    (hl : r.lastSend = some h) (hk : r.timeoutI < r.timeouts.length)
    (x : Nat) (hx : r.timeouts.getD r.timeoutI 0 = x) (hd : h + msNs x = d) (hlt : now < d) :
    reqPoll r now = (r, .waitUntil d) := by
  subst hx hd
  rw [reqPoll_some r now h hc hl, if_neg (Nat.not_le.mpr hk), if_pos hlt]

theorem reqPoll_wait_last (r : Req) (now h d : Nat) (hc : r.recvCancelled = false)
    (hl : r.lastSend = some h) (hk : r.timeouts.length ≤ r.timeoutI)
    (x : Nat) (hx : r.lastRto = x) (hd : h + msNs x = d) (hlt : now < d) :
    reqPoll r now = (r, .waitUntil d) := by
  subst hx hd
  rw [reqPoll_some r now h hc hl, if_pos hk, if_pos hlt]

theorem reqPoll_retransmit (r : Req) (now h : Nat) (hc : r.recvCancelled = false)
    (hs : r.sendCancelled = false) (hl : r.lastSend = some h) (hk : r.timeoutI < r.timeouts.length)
    (x : Nat) (hx : r.timeouts.getD r.timeoutI 0 = x) (hd : h + msNs x ≤ now) :
    reqPoll r now = ({ r with timeoutI := r.timeoutI + 1, lastSend := some now }, .sendData) := by
  subst hx
  rw [reqPoll_some r now h hc hl, if_neg (Nat.not_le.mpr hk), if_neg (Nat.not_lt.mpr hd)]
  simp [hs]

theorem reqPoll_timeout (r : Req) (now h : Nat) (hc : r.recvCancelled = false)
    (hl : r.lastSend = some h) (hk : r.timeouts.length ≤ r.timeoutI)
    (x : Nat) (hx : r.lastRto = x) (hd : h + msNs x ≤ now) : reqPoll r now = (r, .timedOut) := by
  subst hx
  rw [reqPoll_some r now h hc hl, if_pos hk, if_neg (Nat.not_lt.mpr hd)]

/-- a default UDP request after `k` retransmissions, last handed out at `h` -/
def udpReq (b : Bytes) (to : SockAddr) (k h : Nat) : Req :=
  ⟨false, b, to, [500, 1000, 2000, 4000, 8000, 16000], 8000, false, false, k, some h⟩

/-- a fresh agent with exactly one outstanding request -/
def single (tr : Transport) (loc : SockAddr) (tid : Nat) (r : Req) : State := ⟨tr, loc, none, [], [(tid, r)]⟩

theorem default_udp_schedule (tid : Nat) (b : Bytes) (to loc : SockAddr) :
    let tx : Out := .transmit (some tid) ⟨b, .udp, loc, to⟩
    (trace (State.init .udp loc)
      [.sendReq tid b false to 0, .poll 0 none, .poll (msNs 499) none, .poll (msNs 500) none,
       .poll (msNs 1500) none, .poll (msNs 3500) none, .poll (msNs 7500) none,
       .poll (msNs 15499) none, .poll (msNs 15500) none, .poll (msNs 31500) none,
       .poll (msNs 39499) none, .poll (msNs 39500) none]).map (·.2) =
    [tx, .waitUntil (msNs 500), .waitUntil (msNs 500), tx, tx, tx, tx, .waitUntil (msNs 15500), tx, tx,
     .waitUntil (msNs 39500), .timedOut tid] := by
  intro tx
  have e0 : step (State.init .udp loc) (.sendReq tid b false to 0) =
      (single .udp loc tid (udpReq b to 0 0), tx) := by
    rw [step_sendReq_eq]
    rfl
  have e1 : step (single .udp loc tid (udpReq b to 0 0)) (.poll 0 none) =
      (single .udp loc tid (udpReq b to 0 0), .waitUntil (msNs 500)) :=
    poll_single_wait _ _ _ _ _ _ _ _ _ _
      (reqPoll_wait_mid (udpReq b to 0 0) 0 0 (msNs 500) rfl rfl (by decide : 0 < 6) 500 rfl
        (by decide : 0 + msNs 500 = msNs 500) (by decide : 0 < msNs 500))
  have e2 : step (single .udp loc tid (udpReq b to 0 0)) (.poll (msNs 499) none) =
      (single .udp loc tid (udpReq b to 0 0), .waitUntil (msNs 500)) :=
    poll_single_wait _ _ _ _ _ _ _ _ _ _
      (reqPoll_wait_mid (udpReq b to 0 0) (msNs 499) 0 (msNs 500) rfl rfl (by decide : 0 < 6) 500 rfl
        (by decide : 0 + msNs 500 = msNs 500) (by decide : msNs 499 < msNs 500))
  have e3 : step (single .udp loc tid (udpReq b to 0 0)) (.poll (msNs 500) none) =
      (single .udp loc tid (udpReq b to 1 (msNs 500)), tx) :=
    poll_single_send _ _ _ _ _ _ _ _ _
      (reqPoll_retransmit (udpReq b to 0 0) (msNs 500) 0 rfl rfl rfl (by decide : 0 < 6) 500 rfl
        (by decide : 0 + msNs 500 ≤ msNs 500))
  have e4 : step (single .udp loc tid (udpReq b to 1 (msNs 500))) (.poll (msNs 1500) none) =
      (single .udp loc tid (udpReq b to 2 (msNs 1500)), tx) :=
    poll_single_send _ _ _ _ _ _ _ _ _
      (reqPoll_retransmit (udpReq b to 1 (msNs 500)) (msNs 1500) (msNs 500) rfl rfl rfl
        (by decide : 1 < 6) 1000 rfl (by decide : msNs 500 + msNs 1000 ≤ msNs 1500))
  have e5 : step (single .udp loc tid (udpReq b to 2 (msNs 1500))) (.poll (msNs 3500) none) =
      (single .udp loc tid (udpReq b to 3 (msNs 3500)), tx) :=
    poll_single_send _ _ _ _ _ _ _ _ _
      (reqPoll_retransmit (udpReq b to 2 (msNs 1500)) (msNs 3500) (msNs 1500) rfl rfl rfl
        (by decide : 2 < 6) 2000 rfl (by decide : msNs 1500 + msNs 2000 ≤ msNs 3500))
  have e6 : step (single .udp loc tid (udpReq b to 3 (msNs 3500))) (.poll (msNs 7500) none) =
      (single .udp loc tid (udpReq b to 4 (msNs 7500)), tx) :=
    poll_single_send _ _ _ _ _ _ _ _ _
      (reqPoll_retransmit (udpReq b to 3 (msNs 3500)) (msNs 7500) (msNs 3500) rfl rfl rfl
        (by decide : 3 < 6) 4000 rfl (by decide : msNs 3500 + msNs 4000 ≤ msNs 7500))
  have e7 : step (single .udp loc tid (udpReq b to 4 (msNs 7500))) (.poll (msNs 15499) none) =
      (single .udp loc tid (udpReq b to 4 (msNs 7500)), .waitUntil (msNs 15500)) :=
    poll_single_wait _ _ _ _ _ _ _ _ _ _
      (reqPoll_wait_mid (udpReq b to 4 (msNs 7500)) (msNs 15499) (msNs 7500) (msNs 15500) rfl rfl
        (by decide : 4 < 6) 8000 rfl (by decide : msNs 7500 + msNs 8000 = msNs 15500)
        (by decide : msNs 15499 < msNs 15500))
  have e8 : step (single .udp loc tid (udpReq b to 4 (msNs 7500))) (.poll (msNs 15500) none) =
      (single .udp loc tid (udpReq b to 5 (msNs 15500)), tx) :=
    poll_single_send _ _ _ _ _ _ _ _ _
      (reqPoll_retransmit (udpReq b to 4 (msNs 7500)) (msNs 15500) (msNs 7500) rfl rfl rfl
        (by decide : 4 < 6) 8000 rfl (by decide : msNs 7500 + msNs 8000 ≤ msNs 15500))
  have e9 : step (single .udp loc tid (udpReq b to 5 (msNs 15500))) (.poll (msNs 31500) none) =
      (single .udp loc tid (udpReq b to 6 (msNs 31500)), tx) :=
    poll_single_send _ _ _ _ _ _ _ _ _
      (reqPoll_retransmit (udpReq b to 5 (msNs 15500)) (msNs 31500) (msNs 15500) rfl rfl rfl
        (by decide : 5 < 6) 16000 rfl (by decide : msNs 15500 + msNs 16000 ≤ msNs 31500))
  have e10 : step (single .udp loc tid (udpReq b to 6 (msNs 31500))) (.poll (msNs 39499) none) =
      (single .udp loc tid (udpReq b to 6 (msNs 31500)), .waitUntil (msNs 39500)) :=
    poll_single_wait _ _ _ _ _ _ _ _ _ _
      (reqPoll_wait_last (udpReq b to 6 (msNs 31500)) (msNs 39499) (msNs 31500) (msNs 39500) rfl rfl
        (by decide : 6 ≤ 6) 8000 rfl (by decide : msNs 31500 + msNs 8000 = msNs 39500)
        (by decide : msNs 39499 < msNs 39500))
  have e11 : step (single .udp loc tid (udpReq b to 6 (msNs 31500))) (.poll (msNs 39500) none) =
      (⟨.udp, loc, none, [], []⟩, .timedOut tid) :=
    poll_single_timeout _ _ _ _ _ _ _ _ _
      (reqPoll_timeout (udpReq b to 6 (msNs 31500)) (msNs 39500) (msNs 31500) rfl rfl
        (by decide : 6 ≤ 6) 8000 rfl (by decide : msNs 31500 + msNs 8000 ≤ msNs 39500))
  simp only [trace_cons, trace_nil, e0, e1, e2, e3, e4, e5, e6, e7, e8, e9, e10, e11, List.map_cons,
    List.map_nil]

/-- a default TCP request, handed out at `h` -/
def tcpReq (b : Bytes) (to : SockAddr) (h : Nat) : Req :=
  ⟨false, b, to, [], 39500, false, false, 0, some h⟩

theorem default_tcp_schedule (tid : Nat) (b : Bytes) (to loc : SockAddr) :
    (trace (State.init .tcp loc)
      [.sendReq tid b false to 0, .poll 0 none, .poll (msNs 39499) none, .poll (msNs 39500) none]).map (·.2) =
    [.transmit (some tid) ⟨b, .tcp, loc, to⟩, .waitUntil (msNs 39500), .waitUntil (msNs 39500),
     .timedOut tid] := by
  have e0 : step (State.init .tcp loc) (.sendReq tid b false to 0) =
      (single .tcp loc tid (tcpReq b to 0), .transmit (some tid) ⟨b, .tcp, loc, to⟩) := by
    rw [step_sendReq_eq]
    rfl
  have e1 : step (single .tcp loc tid (tcpReq b to 0)) (.poll 0 none) =
      (single .tcp loc tid (tcpReq b to 0), .waitUntil (msNs 39500)) :=
    poll_single_wait _ _ _ _ _ _ _ _ _ _
      (reqPoll_wait_last (tcpReq b to 0) 0 0 (msNs 39500) rfl rfl (by decide : 0 ≤ 0) 39500 rfl
        (by decide : 0 + msNs 39500 = msNs 39500) (by decide : 0 < msNs 39500))
  have e2 : step (single .tcp loc tid (tcpReq b to 0)) (.poll (msNs 39499) none) =
      (single .tcp loc tid (tcpReq b to 0), .waitUntil (msNs 39500)) :=
    poll_single_wait _ _ _ _ _ _ _ _ _ _
      (reqPoll_wait_last (tcpReq b to 0) (msNs 39499) 0 (msNs 39500) rfl rfl (by decide : 0 ≤ 0) 39500 rfl
        (by decide : 0 + msNs 39500 = msNs 39500) (by decide : msNs 39499 < msNs 39500))
  have e3 : step (single .tcp loc tid (tcpReq b to 0)) (.poll (msNs 39500) none) =
      (⟨.tcp, loc, none, [], []⟩, .timedOut tid) :=
    poll_single_timeout _ _ _ _ _ _ _ _ _
      (reqPoll_timeout (tcpReq b to 0) (msNs 39500) 0 rfl rfl (by decide : 0 ≤ 0) 39500 rfl
        (by decide : 0 + msNs 39500 ≤ msNs 39500))
  simp only [trace_cons, trace_nil, e0, e1, e2, e3, List.map_cons, List.map_nil]

/-! ### `cancel_retransmissions` -/

theorem cancel_rtx_silent (s : State) (tid : Nat) (r : Req) (h : lookup s.out tid = some r)
    (hc : r.sendCancelled = true) (op : Op) :
    (∀ tx, (step s op).2 ≠ .transmit (some tid) tx) ∧
    (∀ r', lookup (step s op).1.out tid = some r' → r'.sendCancelled = true) := by
  have same : ∀ r', lookup s.out tid = some r' → r'.sendCancelled = true := by
    intro r' hr'
    rw [h] at hr'
    cases hr'
    exact hc
  have upd : ∀ (t : Nat) (f : Req → Req),
      (tid = t → (f r).sendCancelled = true) →
      ∀ r', lookup (update s.out t f) tid = some r' → r'.sendCancelled = true := by
    intro t f hf r' hr'
    by_cases e : tid = t
    · subst e
      rw [lookup_update_self, h] at hr'
      have : f r = r' := by simpa using hr'
      rw [← this]
      exact hf rfl
    · rw [lookup_update_ne _ _ _ _ e] at hr'
      exact same r' hr'
  have rem : ∀ (t : Nat) r', lookup (remove s.out t) tid = some r' → r'.sendCancelled = true := by
    intro t r' hr'
    by_cases e : tid = t
    · subst e
      rw [lookup_remove_self] at hr'
      cases hr'
    · rw [lookup_remove_ne _ _ _ e] at hr'
      exact same r' hr'
  have ins : ∀ (out' : List (Nat × Req)) (t : Nat) (r0 : Req),
      (∀ r', lookup out' tid = some r' → r'.sendCancelled = true) →
      (tid = t → r0.sendCancelled = true) →
      ∀ r', lookup (insert out' t r0) tid = some r' → r'.sendCancelled = true := by
    intro out' t r0 ho hr0 r' hr'
    by_cases e : tid = t
    · subst e
      rw [lookup_insert_self] at hr'
      cases hr'
      exact hr0 rfl
    · rw [lookup_insert_ne _ _ _ _ e] at hr'
      exact ho r' hr'
  cases op with
  | sendReq tid' bytes hadCreds to now =>
    rw [step_sendReq_eq]
    by_cases hs : (lookup s.out tid').isSome = true
    · rw [if_pos hs]
      exact ⟨fun tx e => (by cases e), same⟩
    · rw [if_neg hs]
      have hne : tid ≠ tid' := by
        intro e
        subst e
        rw [h] at hs
        exact hs rfl
      split
      · refine ⟨fun tx e => ?_, fun r' hr' => ?_⟩
        · injection e with e1 e2
          injection e1 with e1
          exact hne e1.symm
        · exact ins s.out tid' _ same (fun e => absurd e hne) r' hr'
      · exact ⟨fun tx e => (by cases e), same⟩
  | sendOther bytes to => exact ⟨fun tx e => (by cases e), same⟩
  | handle m src =>
    unfold step
    cases hr : m.isResponse with
    | false =>
      simp only [hr, Bool.false_eq_true, ↓reduceIte]
      refine ⟨fun tx e => (by cases e), fun r' hr' => ?_⟩
      rw [validatedPeer_out_time] at hr'
      exact same r' hr'
    | true =>
      simp only [hr, ↓reduceIte]
      cases hl : lookup s.out m.tid with
      | none => exact ⟨fun tx e => (by cases e), same⟩
      | some r0 =>
        have hr0 : tid = m.tid → r0.sendCancelled = true := by
          intro e
          rw [← e, h] at hl
          cases hl
          exact hc
        simp only []
        cases hcr : r0.hadCreds with
        | false =>
          simp only [Bool.false_eq_true, ↓reduceIte]
          refine ⟨fun tx e => (by cases e), fun r' hr' => ?_⟩
          rw [validatedPeer_out_time] at hr'
          exact rem m.tid r' hr'
        | true =>
          simp only [↓reduceIte]
          cases hk : s.remoteCreds with
          | none =>
            exact ⟨fun tx e => (by cases e), ins _ m.tid r0 (rem m.tid) hr0⟩
          | some k =>
            simp only []
            cases hv : m.validUnder k with
            | true =>
              simp only [↓reduceIte]
              refine ⟨fun tx e => (by cases e), fun r' hr' => ?_⟩
              rw [validatedPeer_out_time] at hr'
              exact rem m.tid r' hr'
            | false =>
              simp only [Bool.false_eq_true, ↓reduceIte]
              exact ⟨fun tx e => (by cases e), ins _ m.tid r0 (rem m.tid) hr0⟩
  | poll now pick =>
    show (∀ tx, (agentPoll s now pick).2 ≠ _) ∧
      ∀ r', lookup (agentPoll s now pick).1.out tid = some r' → r'.sendCancelled = true
    rw [agentPoll_eq_time]
    cases chosen s now pick with
    | none => exact ⟨fun tx e => (by cases e), same⟩
    | some tid' =>
      simp only []
      cases hl : lookup s.out tid' with
      | none => exact ⟨fun tx e => (by cases e), same⟩
      | some r0 =>
        simp only []
        unfold serve_time
        cases hx : (reqPoll r0 now).2 with
        | waitUntil t => exact ⟨fun tx e => (by cases e), same⟩
        | timedOut => exact ⟨fun tx e => (by cases e), rem tid'⟩
        | cancelled => exact ⟨fun tx e => (by cases e), rem tid'⟩
        | sendData =>
          have hne : tid ≠ tid' := by
            intro e
            subst e
            rw [h] at hl
            cases hl
            exact reqPoll_sendCancelled r now hc hx
          refine ⟨fun tx e => ?_, upd tid' (fun _ => (reqPoll r0 now).1) (fun e => absurd e hne)⟩
          injection e with e1 e2
          injection e1 with e1
          exact hne e1.symm
  | cancel tid' =>
    exact ⟨fun tx e => (by cases e),
      upd tid' (fun r => { r with sendCancelled := true, recvCancelled := true }) (fun _ => rfl)⟩
  | cancelRtx tid' =>
    exact ⟨fun tx e => (by cases e),
      upd tid' (fun r => { r with sendCancelled := true }) (fun _ => rfl)⟩
  | configure tid' rto n last =>
    refine ⟨fun tx e => (by cases e),
      upd tid' (fun r => configureReq s.transport r rto n last) (fun _ => ?_)⟩
    unfold configureReq
    split <;> exact hc
  | setRemoteCreds k => exact ⟨fun tx e => (by cases e), same⟩

end StunVerif.Agent
