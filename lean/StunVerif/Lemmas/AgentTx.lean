/-
Helper lemmas (agent model) for C18 (transmissions are the unmodified request, addressed as asked):
where transmissions come from, that the endpoints never change, and the history invariant tying
every outstanding request to the most recent accepted `send` of its id (`origin`).
-/
import StunVerif.Lemmas.AgentPeers
namespace StunVerif.Agent

/-! ### endpoints -/

theorem step_endpoint (s : State) (op : Op) :
    (step s op).1.transport = s.transport ∧ (step s op).1.localAddr = s.localAddr := by
  cases op with
  | sendReq tid b hc to now => rw [step_sendReq]; split <;> exact ⟨rfl, rfl⟩
  | sendOther b to => exact ⟨rfl, rfl⟩
  | handle m src =>
    simp only [step]
    split
    · split
      · exact ⟨rfl, rfl⟩
      · split
        · split
          · split
            · simp
            · exact ⟨rfl, rfl⟩
          · exact ⟨rfl, rfl⟩
        · simp
    · simp
  | poll now pick => exact ⟨agentPoll_transport s now pick, agentPoll_localAddr s now pick⟩
  | cancel tid => exact ⟨rfl, rfl⟩
  | cancelRtx tid => exact ⟨rfl, rfl⟩
  | configure tid rto n last => exact ⟨rfl, rfl⟩
  | setRemoteCreds k => exact ⟨rfl, rfl⟩

theorem after_endpoint (s : State) (ops : List Op) :
    (after s ops).transport = s.transport ∧ (after s ops).localAddr = s.localAddr := by
  induction ops generalizing s with
  | nil => exact ⟨rfl, rfl⟩
  | cons op ops ih =>
    rw [after_cons]
    exact ⟨(ih _).1.trans (step_endpoint s op).1, (ih _).2.trans (step_endpoint s op).2⟩

/-! ### where transmissions come from -/

theorem step_transmit (s : State) (op : Op) (t : Option Nat) (tx : Transmit)
    (h : (step s op).2 = .transmit t tx) :
    (∃ tid b hc to now, op = .sendReq tid b hc to now ∧ lookup s.out tid = none ∧ t = some tid ∧
      tx = ⟨b, s.transport, s.localAddr, to⟩) ∨
    (∃ b to, op = .sendOther b to ∧ t = none ∧ tx = ⟨b, s.transport, s.localAddr, to⟩) ∨
    (∃ now pick tid r, op = .poll now pick ∧ t = some tid ∧ lookup s.out tid = some r ∧
      tx = ⟨r.bytes, s.transport, s.localAddr, r.to⟩) := by
  cases op with
  | sendReq tid b hc to now =>
    left
    rw [step_sendReq] at h
    split at h
    · cases h
    · next hn =>
      cases h
      refine ⟨tid, b, hc, to, now, rfl, ?_, rfl, rfl⟩
      cases hl : lookup s.out tid with
      | none => rfl
      | some x => rw [hl] at hn; exact absurd rfl hn
  | sendOther b to =>
    right; left
    cases h
    exact ⟨b, to, rfl, rfl, rfl⟩
  | handle m src =>
    exfalso
    simp only [step] at h
    split at h
    · split at h
      · cases h
      · split at h
        · split at h
          · split at h <;> cases h
          · cases h
        · cases h
    · cases h
  | poll now pick =>
    right; right
    have e : step s (.poll now pick) = agentPoll s now pick := rfl
    rw [e] at h
    rcases agentPoll_cases_peers s now pick with ⟨t', hp⟩ | ⟨tid, r, hl, _, hp⟩ | ⟨tid, r, hl, _, hp⟩ |
      ⟨tid, r, hl, _, hp⟩
    · rw [hp] at h; cases h
    · rw [hp] at h
      cases h
      refine ⟨now, pick, tid, r, rfl, rfl, hl, ?_⟩
      simp only [mkTransmit, reqPoll_bytes, reqPoll_to]
    · rw [hp] at h; cases h
    · rw [hp] at h; cases h
  | cancel tid => cases h
  | cancelRtx tid => cases h
  | configure tid rto n last => cases h
  | setRemoteCreds k => cases h

/-! ### traces -/

theorem trace_append (s : State) (ops ops' : List Op) :
    trace s (ops ++ ops') = trace s ops ++ trace (after s ops) ops' := by
  induction ops generalizing s with
  | nil => rfl
  | cons op ops ih => simp [trace_cons_peers, after_cons, ih]

/-- the `i`-th entry of a trace is the reply of the state after the first `i` calls -/
theorem trace_getElem? (s : State) (ops : List Op) (i : Nat) (op : Op) (o : Out)
    (h : (trace s ops)[i]? = some (op, o)) :
    o = (step (after s (ops.take i)) op).2 ∧
    (trace s ops).take (i + 1) = trace s (ops.take i) ++ [(op, o)] := by
  induction ops generalizing s i with
  | nil => simp [trace_nil_peers] at h
  | cons op0 ops ih =>
    rw [trace_cons_peers] at h ⊢
    cases i with
    | zero =>
      simp only [List.getElem?_cons_zero, Option.some.injEq, Prod.mk.injEq] at h
      obtain ⟨rfl, rfl⟩ := h
      simp [after_nil, trace_nil_peers]
    | succ i =>
      rw [List.getElem?_cons_succ] at h
      obtain ⟨h1, h2⟩ := ih _ _ h
      rw [List.take_succ_cons, after_cons, List.take_succ_cons, trace_cons_peers, h2]
      exact ⟨h1, rfl⟩

/-! ### `origin` -/

/-- what one trace entry contributes to `origin` -/
def originOne (tid : Nat) (p : Op × Out) : Option (Bytes × SockAddr) :=
  match p.1, p.2 with
  | .sendReq t b _ to _, .transmit _ _ => if t = tid then some (b, to) else none
  | _, _ => none

theorem origin_nil (tid : Nat) : origin tid [] = none := rfl

theorem origin_cons (tid : Nat) (p : Op × Out) (rest : List (Op × Out)) :
    origin tid (p :: rest) = (origin tid rest).or (originOne tid p) := by
  rcases p with ⟨op, o⟩
  cases op <;> cases o <;> simp only [origin, originOne] <;> cases origin tid rest <;> rfl

theorem origin_append (tid : Nat) (A B : List (Op × Out)) :
    origin tid (A ++ B) = (origin tid B).or (origin tid A) := by
  induction A with
  | nil => simp [origin_nil]
  | cons p A ih => rw [List.cons_append, origin_cons, ih, origin_cons, Option.or_assoc]

theorem origin_snoc (tid : Nat) (T : List (Op × Out)) (p : Op × Out) :
    origin tid (T ++ [p]) = (originOne tid p).or (origin tid T) := by
  rw [origin_append, origin_cons, origin_nil, Option.none_or]

/-- an entry contributes only if it is an accepted `send` of that id, which requires the id not to
    be outstanding -/
theorem originOne_step_some (s : State) (op : Op) (u : Nat) (x : Bytes × SockAddr)
    (h : originOne u (op, (step s op).2) = some x) : lookup s.out u = none := by
  cases op with
  | sendReq tid b hc to now =>
    rw [step_sendReq] at h
    split at h
    · simp [originOne] at h
    · next hn =>
      simp only [originOne] at h
      split at h
      · next e =>
        subst e
        cases hl : lookup s.out tid with
        | none => rfl
        | some x => rw [hl] at hn; exact absurd rfl hn
      · cases h
  | _ => simp [originOne] at h

/-! ### the history invariant -/

/-- every outstanding request carries the bytes and destination of the most recent accepted `send`
    of its id in the trace so far -/
def OriginInv (s : State) (T : List (Op × Out)) : Prop :=
  ∀ u r, lookup s.out u = some r → origin u T = some (r.bytes, r.to)

theorem originInv_init (tr : Transport) (loc : SockAddr) : OriginInv (State.init tr loc) [] := by
  intro u r h
  simp [State.init] at h

theorem originInv_step {s : State} {T : List (Op × Out)} (hinv : OriginInv s T) (op : Op) :
    OriginInv (step s op).1 (T ++ [(op, (step s op).2)]) := by
  intro u r' h
  rw [origin_snoc]
  rcases step_lookup_some s op u r' h with ⟨r, hl, hb, hto, _, _⟩ |
    ⟨hnone, b, hc, to, now, rfl, ho, rfl⟩
  · cases hone : originOne u (op, (step s op).2) with
    | some x => rw [originOne_step_some s op u x hone] at hl; cases hl
    | none => rw [Option.none_or, hinv u r hl, hb, hto]
  · rw [ho]
    simp [originOne]

theorem originInv_after {s : State} {T : List (Op × Out)} (hinv : OriginInv s T) (ops : List Op) :
    OriginInv (after s ops) (T ++ trace s ops) := by
  induction ops generalizing s T with
  | nil => simpa [trace_nil_peers, after_nil] using hinv
  | cons op ops ih =>
    rw [after_cons, trace_cons_peers]
    have := ih (originInv_step hinv op)
    simpa using this

theorem originInv_history (tr : Transport) (loc : SockAddr) (ops : List Op) :
    OriginInv (after (State.init tr loc) ops) (trace (State.init tr loc) ops) := by
  simpa using originInv_after (originInv_init tr loc) ops

/-- a transmission for request `tid` carries the bytes and destination of the most recent accepted
    `send` of `tid`, this call included -/
theorem originInv_transmit {s : State} {T : List (Op × Out)} (hinv : OriginInv s T) (op : Op)
    (tid : Nat) (tx : Transmit) (h : (step s op).2 = .transmit (some tid) tx) :
    ∃ b to, origin tid (T ++ [(op, .transmit (some tid) tx)]) = some (b, to) ∧
      tx = ⟨b, s.transport, s.localAddr, to⟩ := by
  rw [origin_snoc]
  rcases step_transmit s op _ tx h with ⟨tid', b, hc, to, now, rfl, _, ht, rfl⟩ |
    ⟨b, to, rfl, ht, _⟩ | ⟨now, pick, tid', r, rfl, ht, hl, rfl⟩
  · cases ht
    exact ⟨b, to, by simp [originOne], rfl⟩
  · cases ht
  · cases ht
    exact ⟨r.bytes, r.to, by simp [originOne, hinv tid r hl], rfl⟩

end StunVerif.Agent
