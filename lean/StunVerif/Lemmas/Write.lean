/-
Helper lemmas for C12: `writeAt` / `fillZero` composition, the wire form of raw and typed
attributes, and the builder's attribute loop.
-/
import StunVerif.Msg.Builder
import StunVerif.Lemmas.Attr
namespace StunVerif
set_option linter.unusedSimpArgs false

/-! ### padding arithmetic -/

theorem paddedAttrLen_eq (n : Nat) : paddedAttrLen n = round4 n := by
  unfold paddedAttrLen round4 pad4
  split <;> omega

theorem pad4_eq_zero {n : Nat} (h : n % 4 = 0) : pad4 n = 0 := by unfold pad4; omega

/-! ### `writeAt` / `fillZero` -/

theorem writeAt_pre (pre rest src : Bytes) (off : Nat) (ho : off = pre.length)
    (hs : src.length ≤ rest.length) :
    writeAt (pre ++ rest) off src = some (pre ++ src ++ rest.drop src.length) := by
  subst ho
  unfold writeAt
  rw [if_pos (by simp; omega)]
  simp

theorem fillZero_pre (pre rest : Bytes) (lo hi : Nat) (ho : lo = pre.length) (hlh : lo ≤ hi)
    (hs : hi - lo ≤ rest.length) :
    fillZero (pre ++ rest) lo hi = some (pre ++ zeros (hi - lo) ++ rest.drop (hi - lo)) := by
  unfold fillZero
  rw [if_pos hlh, writeAt_pre pre rest _ lo ho (by simpa using hs)]
  simp

/-- header then value written over the front of `dest`, followed by any continuation -/
theorem write_steps {β} (k : Bytes → Option β) (hdr value dest : Bytes) (hh : hdr.length = 4)
    (hd : 4 + value.length ≤ dest.length) :
    ((writeAt dest 0 hdr).bind fun d => (writeAt d 4 value).bind k) =
      k (hdr ++ value ++ dest.drop (4 + value.length)) := by
  have h1 := writeAt_pre [] dest hdr 0 rfl (by omega)
  simp only [List.nil_append] at h1
  rw [h1]
  simp only [Option.bind_some]
  rw [writeAt_pre hdr (dest.drop hdr.length) value 4 hh.symm (by simp; omega)]
  simp [hh]

theorem fill_branch (hdr value dest : Bytes) (hh : hdr.length = 4)
    (hd : 4 + round4 value.length ≤ dest.length) :
    fillZero (hdr ++ value ++ dest.drop (4 + value.length)) (4 + value.length)
        (4 + round4 value.length) =
      some (hdr ++ value ++ zeros (pad4 value.length) ++ dest.drop (4 + round4 value.length)) := by
  have e : 4 + round4 value.length - (4 + value.length) = pad4 value.length := by
    unfold round4; omega
  rw [fillZero_pre (hdr ++ value) _ _ _ (by simp [hh]) (by unfold round4; omega)
    (by rw [e]; simp; unfold round4 at hd; omega), e]
  simp [round4]
  omega

theorem nofill_branch (hdr value dest : Bytes) (hp : pad4 value.length = 0) :
    hdr ++ value ++ dest.drop (4 + value.length) =
      hdr ++ value ++ zeros (pad4 value.length) ++ dest.drop (4 + round4 value.length) := by
  simp [round4, hp]

/-! ### raw attributes -/

/-- the wire form: header, value, zero padding to a multiple of four -/
def wireForm (ty : Nat) (value : Bytes) : Bytes :=
  enc16 ty ++ enc16 value.length ++ value ++ zeros (pad4 value.length)

theorem wireForm_length (ty : Nat) (value : Bytes) :
    (wireForm ty value).length = 4 + round4 value.length := by
  simp [wireForm, round4]; omega

theorem toBytes_eq (a : RawAttr) : a.toBytes = wireForm a.ty a.value := by
  unfold RawAttr.toBytes wireForm
  simp only [List.length_append, enc16_length]
  by_cases h : a.value.length % 4 = 0
  · have h1 : ¬ ((2 + 2 + a.value.length) % 4 ≠ 0) := by omega
    rw [if_neg h1, pad4_eq_zero h]; simp
  · have h1 : (2 + 2 + a.value.length) % 4 ≠ 0 := by omega
    have h2 : 4 - (2 + 2 + a.value.length) % 4 = pad4 a.value.length := by unfold pad4; omega
    rw [if_pos h1, h2]

theorem raw_paddedLen (a : RawAttr) (h : a.value.length < 65536) :
    a.paddedLen = 4 + round4 a.value.length := by
  unfold RawAttr.paddedLen
  rw [Nat.mod_eq_of_lt h, paddedAttrLen_eq]

theorem raw_writeUnchecked (a : RawAttr) (dest : Bytes) (h : a.value.length < 65536)
    (hd : a.paddedLen ≤ dest.length) :
    a.writeIntoUnchecked dest = some (wireForm a.ty a.value ++ dest.drop a.paddedLen) := by
  have hp := raw_paddedLen a h
  have hn : 4 + a.value.length ≤ dest.length := by
    rw [hp] at hd; unfold round4 at hd; omega
  unfold RawAttr.writeIntoUnchecked
  simp only [Option.bind_eq_bind]
  rw [write_steps _ _ _ _ (by simp) hn]
  rw [hp] at hd ⊢
  by_cases hz : pad4 a.value.length = 0
  · rw [if_neg (by unfold round4; omega)]
    unfold wireForm
    rw [← nofill_branch _ _ _ hz]
  · rw [if_pos (by unfold round4; omega), fill_branch _ _ _ (by simp) hd]
    rfl

theorem raw_write (a : RawAttr) (dest : Bytes) (h : a.value.length < 65536)
    (hd : a.paddedLen ≤ dest.length) :
    a.writeInto dest = .ok (a.paddedLen, a.toBytes ++ dest.drop a.paddedLen) := by
  unfold RawAttr.writeInto
  rw [if_neg (by omega), raw_writeUnchecked a dest h hd, toBytes_eq]

theorem raw_write_short (a : RawAttr) (dest : Bytes) (hd : dest.length < a.paddedLen) :
    a.writeInto dest = .error (.tooSmall a.paddedLen dest.length) := by
  unfold RawAttr.writeInto
  rw [if_pos (by omega)]

/-! ### typed attributes -/

theorem addr_valueBytes_length (a : Addr) (h : a.wf = true) :
    a.valueBytes.length = 8 ∨ a.valueBytes.length = 20 := by
  obtain ⟨v6, ip, port⟩ := a
  cases v6 <;> simp [Addr.wf] at h <;> simp [Addr.valueBytes, h.1]

theorem inLimit_length_lt (v : AttrVal) (h : v.inLimit = true) : v.valueBytes.length < 65536 := by
  cases v with
  | unknownAttributes ts =>
    simp [AttrVal.inLimit] at h
    simp only [AttrVal.valueBytes, flatMap_enc16_length]; omega
  | passwordAlgorithms as =>
    simp [AttrVal.inLimit] at h
    simp only [pwas_valueBytes, flatMap_algoEntry_length]; omega
  | xorMappedAddress a =>
    have := addr_valueBytes_length a h
    simp only [AttrVal.valueBytes]; omega
  | alternateServer a =>
    have := addr_valueBytes_length a h
    simp only [AttrVal.valueBytes]; omega
  | fingerprint crc =>
    simp [AttrVal.inLimit] at h
    simp [AttrVal.valueBytes, xorBytes_length, h, fpXorConst]
  | _ => simp [AttrVal.inLimit] at h <;> simp [AttrVal.valueBytes] <;> omega

theorem inLimit_mod4 (v : AttrVal) (h : v.inLimit = true) (hf : v.kind.fillsPadding = false) :
    v.valueBytes.length % 4 = 0 := by
  cases v with
  | xorMappedAddress a =>
    have := addr_valueBytes_length a h
    simp only [AttrVal.valueBytes]; omega
  | alternateServer a =>
    have := addr_valueBytes_length a h
    simp only [AttrVal.valueBytes]; omega
  | fingerprint crc =>
    simp [AttrVal.inLimit] at h
    simp [AttrVal.valueBytes, xorBytes_length, h, fpXorConst]
  | username _ | realm _ | nonce _ | software _ | alternateDomain _ | errorCode _ _
  | unknownAttributes _ | passwordAlgorithm _ | passwordAlgorithms _ =>
    simp [AttrVal.kind, Kind.fillsPadding] at hf
  | _ => simp [AttrVal.inLimit] at h <;> simp [AttrVal.valueBytes] <;> omega

theorem typed_paddedLen (v : AttrVal) : v.paddedLen = 4 + round4 v.valueBytes.length := by
  unfold AttrVal.paddedLen AttrVal.length
  rw [paddedAttrLen_eq]

theorem typed_raw_paddedLen (v : AttrVal) (h : v.inLimit = true) : v.toRaw.paddedLen = v.paddedLen := by
  rw [raw_paddedLen _ (inLimit_length_lt v h), typed_paddedLen]; rfl

theorem typed_writeUnchecked (v : AttrVal) (dest : Bytes) (hl : v.inLimit = true)
    (hd : v.paddedLen ≤ dest.length) :
    v.writeIntoUnchecked dest =
      some (wireForm v.kind.code v.valueBytes ++ dest.drop v.paddedLen) := by
  have hp := typed_paddedLen v
  have hn : 4 + v.valueBytes.length ≤ dest.length := by
    rw [hp] at hd; unfold round4 at hd; omega
  unfold AttrVal.writeIntoUnchecked
  simp only [Option.bind_eq_bind, AttrVal.length]
  rw [write_steps _ _ _ _ (by simp) hn]
  rw [hp] at hd ⊢
  by_cases hz : pad4 v.valueBytes.length = 0
  · have : ¬ (4 + round4 v.valueBytes.length > 4 + v.valueBytes.length) := by unfold round4; omega
    simp only [this, decide_false, Bool.and_false]
    unfold wireForm
    rw [← nofill_branch _ _ _ hz]
    rfl
  · have hfill : v.kind.fillsPadding = true := by
      cases hf : v.kind.fillsPadding
      · have := inLimit_mod4 v hl hf
        exact absurd (pad4_eq_zero this) hz
      · rfl
    have : 4 + round4 v.valueBytes.length > 4 + v.valueBytes.length := by unfold round4; omega
    simp only [hfill, this, decide_true, Bool.and_true]
    rw [if_pos trivial, fill_branch _ _ _ (by simp) hd]
    rfl

theorem typed_write (v : AttrVal) (dest : Bytes) (hl : v.inLimit = true)
    (hd : v.paddedLen ≤ dest.length) :
    v.writeInto dest = .ok (v.paddedLen, v.toRaw.toBytes ++ dest.drop v.paddedLen) := by
  unfold AttrVal.writeInto
  rw [if_neg (by omega), typed_writeUnchecked v dest hl hd, toBytes_eq]
  rfl

theorem typed_write_short (v : AttrVal) (dest : Bytes) (hd : dest.length < v.paddedLen) :
    v.writeInto dest = .error (.tooSmall v.paddedLen dest.length) := by
  unfold AttrVal.writeInto
  rw [if_pos (by omega)]

/-! ### the builder -/

/-- in-limit (typed) or at most 65535 bytes (raw) -/
def BAttr.Ok : BAttr → Prop
  | .typed v => v.inLimit = true
  | .raw a => a.value.length < 65536

theorem battr_write (a : BAttr) (hok : a.Ok) (dest : Bytes) (hd : a.paddedLen ≤ dest.length) :
    a.writeInto dest = .ok (a.paddedLen, a.asRaw.toBytes ++ dest.drop a.paddedLen) := by
  cases a with
  | typed v => exact typed_write v dest hok hd
  | raw r => exact raw_write r dest hok hd

theorem battr_toBytes_length (a : BAttr) (hok : a.Ok) : a.asRaw.toBytes.length = a.paddedLen := by
  cases a with
  | typed v =>
    simp only [BAttr.asRaw, BAttr.paddedLen, toBytes_eq, wireForm_length, typed_paddedLen]; rfl
  | raw r =>
    simp only [BAttr.asRaw, BAttr.paddedLen, toBytes_eq, wireForm_length, raw_paddedLen r hok]

theorem battr_owned (a : BAttr) (hok : a.Ok) :
    a.intoOwned.Ok ∧ a.intoOwned.paddedLen = a.paddedLen ∧ a.intoOwned.asRaw = a.asRaw := by
  cases a with
  | typed v => exact ⟨inLimit_length_lt v hok, typed_raw_paddedLen v hok, rfl⟩
  | raw r => exact ⟨hok, rfl, rfl⟩

def sumPadded (as : List BAttr) : Nat := (as.map BAttr.paddedLen).sum

theorem writeAttrs_eq (as : List BAttr) (hok : ∀ a ∈ as, a.Ok) (pre rest : Bytes) (off : Nat)
    (hoff : off = pre.length) (hlen : sumPadded as ≤ rest.length) :
    writeAttrs as (pre ++ rest) off =
      .ok (off + sumPadded as,
        pre ++ as.flatMap (fun a => a.asRaw.toBytes) ++ rest.drop (sumPadded as)) := by
  induction as generalizing pre rest off with
  | nil => simp [writeAttrs, sumPadded]
  | cons a as ih =>
    have hoka : a.Ok := hok a (by simp)
    have hoks : ∀ b ∈ as, b.Ok := fun b hb => hok b (by simp [hb])
    have hs : sumPadded (a :: as) = a.paddedLen + sumPadded as := by simp [sumPadded]
    rw [hs] at hlen ⊢
    subst hoff
    unfold writeAttrs
    have hdrop : (pre ++ rest).drop pre.length = rest := by simp
    have htake : (pre ++ rest).take pre.length = pre := by simp
    rw [hdrop, battr_write a hoka rest (by omega)]
    simp only [htake]
    rw [← List.append_assoc]
    rw [ih hoks (pre ++ a.asRaw.toBytes) (rest.drop a.paddedLen) _
      (by simp [battr_toBytes_length a hoka]) (by simp; omega)]
    simp [List.flatMap_cons]
    omega

theorem header_length (ty len tid : Nat) :
    (enc16 ty ++ enc16 len ++ cookieBytes ++ encBE 12 tid).length = 20 := by
  simp [cookieBytes]

theorem builder_writeInto (b : Builder) (hb : ∀ a ∈ b.attrs, a.Ok) (dest : Bytes)
    (hd : b.byteLen ≤ dest.length) :
    b.writeInto dest = .ok (b.byteLen,
      enc16 b.ty ++ enc16 (b.byteLen - 20) ++ cookieBytes ++ encBE 12 b.tid ++
        b.attrs.flatMap (fun a => a.asRaw.toBytes) ++ dest.drop b.byteLen) := by
  have hbl : b.byteLen = 20 + sumPadded b.attrs := rfl
  unfold Builder.writeInto
  simp only []
  rw [if_neg (by omega)]
  rw [writeAttrs_eq b.attrs hb _ (dest.drop 20) 20 (header_length _ _ _).symm (by simp; omega)]
  simp [hbl]

theorem builder_build (b : Builder) (hb : ∀ a ∈ b.attrs, a.Ok) :
    b.build = enc16 b.ty ++ enc16 (b.byteLen - 20) ++ cookieBytes ++ encBE 12 b.tid ++
        b.attrs.flatMap (fun a => a.asRaw.toBytes) := by
  unfold Builder.build
  simp only []
  rw [builder_writeInto b hb (zeros b.byteLen) (by simp)]
  simp [zeros]

theorem flatMap_toBytes_length (as : List BAttr) (hok : ∀ a ∈ as, a.Ok) :
    (as.flatMap (fun a => a.asRaw.toBytes)).length = sumPadded as := by
  induction as with
  | nil => rfl
  | cons a as ih =>
    have hoka : a.Ok := hok a (by simp)
    have hoks : ∀ b ∈ as, b.Ok := fun b hb => hok b (by simp [hb])
    simp [List.flatMap_cons, sumPadded, battr_toBytes_length a hoka] 
    have := ih hoks
    simp [sumPadded] at this
    omega

theorem builder_build_length (b : Builder) (hb : ∀ a ∈ b.attrs, a.Ok) :
    b.build.length = b.byteLen := by
  rw [builder_build b hb, List.length_append, header_length, flatMap_toBytes_length _ hb]
  rfl

theorem flatMap_congr' {α β} (l : List α) (f g : α → List β) (h : ∀ a ∈ l, f a = g a) :
    l.flatMap f = l.flatMap g := by
  induction l with
  | nil => rfl
  | cons a l ih =>
    simp only [List.flatMap_cons]
    rw [h a (by simp), ih (fun b hb => h b (by simp [hb]))]

theorem builder_owned (b : Builder) (hb : ∀ a ∈ b.attrs, a.Ok) :
    (∀ a ∈ b.intoOwned.attrs, a.Ok) ∧ b.intoOwned.byteLen = b.byteLen ∧
    b.intoOwned.attrs.flatMap (fun a => a.asRaw.toBytes) =
      b.attrs.flatMap (fun a => a.asRaw.toBytes) := by
  refine ⟨?_, ?_, ?_⟩
  · intro a ha
    simp only [Builder.intoOwned, List.mem_map] at ha
    obtain ⟨a', ha', rfl⟩ := ha
    exact (battr_owned a' (hb a' ha')).1
  · simp only [Builder.byteLen, Builder.intoOwned, List.map_map]
    congr 2
    apply List.map_congr_left
    intro a ha
    exact (battr_owned a (hb a ha)).2.1
  · simp only [Builder.intoOwned, List.flatMap_map]
    apply flatMap_congr'
    intro a ha
    simp [(battr_owned a (hb a ha)).2.2]

end StunVerif
