import StunVerif.Msg.Builder
namespace StunVerif
end StunVerif
