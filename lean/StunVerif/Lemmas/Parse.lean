import StunVerif.Spec.Msg
import StunVerif.Lemmas.Bytes
import StunVerif.Lemmas.Header
import StunVerif.Lemmas.Exposed
import StunVerif.Lemmas.WalkSpec
namespace StunVerif
open Spec

/-- `Message::from_bytes` on a buffer of at least 20 bytes, as a decision list -/
theorem msgFromBytes_unfold (b : Bytes) (h : 20 ≤ b.length) :
    msgFromBytes b =
      if 0x4000 ≤ beNat (b.take 2) then .error .notStun
      else if (b.drop 4).take 4 ≠ [0x21, 0x12, 0xA4, 0x42] then .error .notStun
      else if beNat ((b.drop 2).take 2) + 20 > b.length then
        .error (.truncated (beNat ((b.drop 2).take 2) + 20) b.length)
      else if beNat ((b.drop 2).take 2) + 20 < b.length then
        .error (.tooLarge (beNat ((b.drop 2).take 2) + 20) b.length)
      else (walk b.length b (b.drop 20) 20 []).map fun _ => ⟨b⟩ := by
  obtain ⟨t0, t1, l0, l1, c0, c1, c2, c3, rest, rfl, hr⟩ := split20 b h
  unfold msgFromBytes
  rw [header_of_cons _ _ _ _ _ _ _ _ _ hr]
  simp only [List.take_succ_cons, List.take_zero, List.drop_succ_cons, List.drop_zero, beNat_two]
  by_cases h1 : be16 t0 t1 ≥ 0x4000
  · simp [h1, bind, Except.bind]
  · by_cases h2 : [c0, c1, c2, c3] = cookieBytes
    · simp only [h1, h2, if_false, ne_eq, not_true, bind, Except.bind]
      rfl
    · have h2' : ¬ [c0, c1, c2, c3] = [0x21, 0x12, 0xA4, 0x42] := h2
      simp [h1, h2, h2', bind, Except.bind]

theorem beNat_take2_lt (l : Bytes) : beNat (l.take 2) < 65536 := by
  match l with
  | [] => simp [beNat]
  | [a] => have := u8_lt a; simp [beNat]; omega
  | a :: b :: _ =>
    simp only [List.take_succ_cons, List.take_zero, beNat_two]; exact be16_lt a b

theorem msgFromBytes_ok_iff (b : Bytes) (m : Msg) :
    msgFromBytes b = .ok m ↔
      m = ⟨b⟩ ∧ 20 ≤ b.length ∧ beNat (b.take 2) < 0x4000 ∧
      (b.drop 4).take 4 = [0x21, 0x12, 0xA4, 0x42] ∧
      beNat ((b.drop 2).take 2) + 20 = b.length ∧
      walk b.length b (b.drop 20) 20 [] = .ok () := by
  by_cases h20 : 20 ≤ b.length
  · rw [msgFromBytes_unfold b h20]
    constructor
    · intro h
      split at h
      · cases h
      · split at h
        · cases h
        · split at h
          · cases h
          · split at h
            · cases h
            · rename_i h1 h2 h3 h4
              cases hw : walk b.length b (b.drop 20) 20 [] with
              | error e => rw [hw] at h; cases h
              | ok u =>
                rw [hw] at h
                simp only [Except.map, Except.ok.injEq] at h
                exact ⟨h.symm, h20, by omega, by simpa using h2, by omega, rfl⟩
    · rintro ⟨rfl, _, h1, h2, h3, h4⟩
      rw [if_neg (by omega), if_neg (by simp [h2]), if_neg (by omega), if_neg (by omega), h4]
      rfl
  · unfold msgFromBytes
    rw [header_short b (by omega)]
    simp only [bind, Except.bind]
    constructor
    · intro h; cases h
    · rintro ⟨_, h, _⟩; omega

/-- a well-formed buffer passes the attribute walk -/
theorem wellFormedAs_walk (b : Bytes) (ts : List Tlv) (hw : WellFormedAs b ts) :
    walk b.length b (b.drop 20) 20 [] = .ok () := by
  obtain ⟨h20, _, _, hlen, hwf, htile, hord, hfp⟩ := hw
  have hdl : (ts.flatMap Tlv.enc).length = b.length - 20 := by rw [← htile, List.length_drop]
  have h64 := beNat_take2_lt (b.drop 2)
  rw [htile]
  exact walk_ok_complete b b.length ts 20 [] hwf (by omega) (by omega)
    (by rw [ordGo_nil]; exact hord) hfp

/-- a buffer with a good header that passes the attribute walk is well formed -/
theorem walk_wellFormed (b : Bytes) (h20 : 20 ≤ b.length) (ht : beNat (b.take 2) < 0x4000)
    (hc : (b.drop 4).take 4 = [0x21, 0x12, 0xA4, 0x42])
    (hl : beNat ((b.drop 2).take 2) + 20 = b.length)
    (hw : walk b.length b (b.drop 20) 20 [] = .ok ()) : WellFormed b := by
  obtain ⟨ts, hwf, htile, hord, hfp⟩ := walk_ok_sound b _ _ _ _ hw
  rw [ordGo_nil] at hord
  exact ⟨ts, h20, ht, hc, hl, hwf, htile, hord, hfp⟩

/-- the reference attribute list of a well-formed buffer -/
theorem wellFormedAs_allAttrs (b : Bytes) (ts : List Tlv) (hw : WellFormedAs b ts) :
    allAttrsGo b.length (b.drop 20) = ts.map Tlv.raw := by
  obtain ⟨h20, _, _, hlen, hwf, htile, _, _⟩ := hw
  have hdl : (ts.flatMap Tlv.enc).length = b.length - 20 := by rw [← htile, List.length_drop]
  have h64 := beNat_take2_lt (b.drop 2)
  rw [htile]
  exact allAttrsGo_tiles b.length ts hwf (by omega) (by omega)

/-- errors of the whole parser -/
theorem msgFromBytes_err (b : Bytes) (e : PErr) (h : msgFromBytes b = .error e) :
    e = .notStun ∨ walkErr e := by
  by_cases h20 : 20 ≤ b.length
  · rw [msgFromBytes_unfold b h20] at h
    split at h
    · injection h with h; exact Or.inl h.symm
    · split at h
      · injection h with h; exact Or.inl h.symm
      · split at h
        · injection h with h; subst h; exact Or.inr (Or.inl ⟨_, _, rfl⟩)
        · split at h
          · injection h with h; subst h; exact Or.inr (Or.inr (Or.inl ⟨_, _, rfl⟩))
          · cases hw : walk b.length b (b.drop 20) 20 [] with
            | error e' =>
              rw [hw] at h
              simp only [Except.map] at h
              injection h with h; subst h
              exact Or.inr (walk_err_class b _ _ _ _ _ (by rw [List.length_drop]; omega) hw)
            | ok u => rw [hw] at h; cases h
  · unfold msgFromBytes at h
    rw [header_short b (by omega)] at h
    simp only [bind, Except.bind] at h
    injection h with h; subst h; exact Or.inr (Or.inl ⟨_, _, rfl⟩)

theorem walkErr_not_fault (f : Fault) : ¬ walkErr (.fault f) := by
  rintro (⟨_, _, h⟩ | ⟨_, _, h⟩ | ⟨_, h⟩ | ⟨_, h⟩ | h) <;> cases h

theorem walkErr_not_notStun : ¬ walkErr .notStun := by
  rintro (⟨_, _, h⟩ | ⟨_, _, h⟩ | ⟨_, h⟩ | ⟨_, h⟩ | h) <;> cases h

/-- an "attribute after ..." error of the parser comes from the walk -/
theorem msgFromBytes_after (b : Bytes) (e : PErr) (ty : Nat) (h : msgFromBytes b = .error e)
    (he : e = .afterFingerprint ty ∨ e = .afterIntegrity ty) :
    walk b.length b (b.drop 20) 20 [] = .error e := by
  by_cases h20 : 20 ≤ b.length
  · rw [msgFromBytes_unfold b h20] at h
    split at h
    · injection h with h; subst h; rcases he with he | he <;> cases he
    · split at h
      · injection h with h; subst h; rcases he with he | he <;> cases he
      · split at h
        · injection h with h; subst h; rcases he with he | he <;> cases he
        · split at h
          · injection h with h; subst h; rcases he with he | he <;> cases he
          · cases hw : walk b.length b (b.drop 20) 20 [] with
            | error e' =>
              rw [hw] at h
              simp only [Except.map] at h
              injection h with h; subst h; rfl
            | ok u => rw [hw] at h; cases h
  · unfold msgFromBytes at h
    rw [header_short b (by omega)] at h
    simp only [bind, Except.bind] at h
    injection h with h; subst h; rcases he with he | he <;> cases he

end StunVerif
