import StunVerif.Spec.Msg
import StunVerif.Lemmas.Bytes
namespace StunVerif
end StunVerif
