/-
Helper lemmas (agent model) — see the Props file that imports this module.
-/
import StunVerif.Lemmas.AgentMap
namespace StunVerif.Agent

/-! ### small map facts -/

theorem lookup_update_isSome (out : List (Nat × Req)) (t u : Nat) (f : Req → Req) :
    (lookup (update out t f) u).isSome = (lookup out u).isSome := by
  by_cases h : u = t
  · subst h; rw [lookup_update_self]; cases lookup out u <;> rfl
  · rw [lookup_update_ne _ _ _ _ h]

theorem lookup_insert_remove (out : List (Nat × Req)) (t u : Nat) (r : Req)
    (h : lookup out t = some r) : lookup (insert (remove out t) t r) u = lookup out u := by
  by_cases e : u = t
  · subst e; rw [lookup_insert_self, h]
  · rw [lookup_insert_ne _ _ _ _ e, lookup_remove_ne _ _ _ e]

theorem validatedPeer_out (s : State) (a : SockAddr) : (validatedPeer s a).out = s.out := by
  unfold validatedPeer; split <;> rfl

/-! ### characterisation of `step` per call -/

theorem reqPoll_new (tr : Transport) (b : Bytes) (hc : Bool) (to : SockAddr) (now : Time) :
    reqPoll (Req.new tr b hc to) now =
      ({ Req.new tr b hc to with lastSend := some now }, .sendData) := by
  cases tr <;> rfl

theorem step_sendReq_dup (s : State) (tid : Nat) (b : Bytes) (hc : Bool) (to : SockAddr) (now : Time)
    (h : (lookup s.out tid).isSome = true) :
    step s (.sendReq tid b hc to now) = (s, .inProgress) := by
  simp only [step, h, if_true]

theorem step_sendReq_new (s : State) (tid : Nat) (b : Bytes) (hc : Bool) (to : SockAddr) (now : Time)
    (h : (lookup s.out tid).isSome = false) :
    step s (.sendReq tid b hc to now) =
      ({ s with out := insert s.out tid { Req.new s.transport b hc to with lastSend := some now } },
        .transmit (some tid) (mkTransmit s { Req.new s.transport b hc to with lastSend := some now })) := by
  simp only [step, h, reqPoll_new]
  rfl

theorem step_handle_cases (s : State) (m : InMsg) (src : SockAddr) :
    (m.isResponse = false ∧ step s (.handle m src) = (validatedPeer s src, .incoming)) ∨
    (m.isResponse = true ∧ lookup s.out m.tid = none ∧ step s (.handle m src) = (s, .drop)) ∨
    (∃ r, m.isResponse = true ∧ lookup s.out m.tid = some r ∧
      step s (.handle m src) = (validatedPeer { s with out := remove s.out m.tid } src, .response)) ∨
    (∃ r, m.isResponse = true ∧ lookup s.out m.tid = some r ∧
      step s (.handle m src) = ({ s with out := insert (remove s.out m.tid) m.tid r }, .drop)) := by
  cases hr : m.isResponse with
  | false => left; simp [step, hr]
  | true =>
    right
    cases hl : lookup s.out m.tid with
    | none => left; simp [step, hr, hl]
    | some r =>
      right
      cases hc : r.hadCreds with
      | false => left; exact ⟨r, rfl, rfl, by simp [step, hr, hl, hc]⟩
      | true =>
        cases hk : s.remoteCreds with
        | none => right; exact ⟨r, rfl, rfl, by simp [step, hr, hl, hc, hk]⟩
        | some k =>
          cases hv : m.validUnder k with
          | true => left; exact ⟨r, rfl, rfl, by simp [step, hr, hl, hc, hk, hv]⟩
          | false => right; exact ⟨r, rfl, rfl, by simp [step, hr, hl, hc, hk, hv]⟩

/-- what a `poll` can do: nothing (answering `WaitUntil`), or serve one outstanding transaction -/
theorem agentPoll_cases (s : State) (now : Time) (pick : Option Nat) :
    (∃ t, agentPoll s now pick = (s, .waitUntil t)) ∨
    (∃ tid r, lookup s.out tid = some r ∧
      (((reqPoll r now).2 = .sendData ∧
        agentPoll s now pick = ({ s with out := update s.out tid fun _ => (reqPoll r now).1 },
          .transmit (some tid) (mkTransmit s (reqPoll r now).1))) ∨
       ((reqPoll r now).2 = .timedOut ∧
        agentPoll s now pick = ({ s with out := remove s.out tid }, .timedOut tid)) ∨
       ((reqPoll r now).2 = .cancelled ∧
        agentPoll s now pick = ({ s with out := remove s.out tid }, .cancelled tid)))) := by
  unfold agentPoll
  simp only []
  split
  · exact Or.inl ⟨_, rfl⟩
  · rename_i tid _
    split
    · exact Or.inl ⟨_, rfl⟩
    · rename_i r hl
      cases hp : reqPoll r now with
      | mk r' ret =>
        cases ret with
        | waitUntil t => exact Or.inl ⟨_, rfl⟩
        | sendData => exact Or.inr ⟨tid, r, hl, Or.inl ⟨by rw [hp], by simp [hp]⟩⟩
        | timedOut => exact Or.inr ⟨tid, r, hl, Or.inr (Or.inl ⟨by rw [hp], by simp⟩)⟩
        | cancelled => exact Or.inr ⟨tid, r, hl, Or.inr (Or.inr ⟨by rw [hp], by simp⟩)⟩


/-! ### one step and the outstanding bit -/


theorem step_lifecycle (s : State) (op : Op) (tid : Nat) :
    match event op (step s op).2 with
    | some (t, .started) =>
        if t = tid then isOutstanding s tid = false ∧ isOutstanding (step s op).1 tid = true
        else isOutstanding (step s op).1 tid = isOutstanding s tid
    | some (t, _) =>
        if t = tid then isOutstanding s tid = true ∧ isOutstanding (step s op).1 tid = false
        else isOutstanding (step s op).1 tid = isOutstanding s tid
    | none => isOutstanding (step s op).1 tid = isOutstanding s tid := by
  cases op with
  | sendReq t b hc to now =>
    cases h : (lookup s.out t).isSome with
    | true => rw [step_sendReq_dup _ _ _ _ _ _ h]; simp [event]
    | false =>
      rw [step_sendReq_new _ _ _ _ _ _ h]
      simp only [event]
      by_cases e : t = tid
      · subst e; simp [isOutstanding, h, lookup_insert_self]
      · have e' : tid ≠ t := fun x => e x.symm
        simp [e, isOutstanding, lookup_insert_ne _ _ _ _ e']
  | sendOther b to => simp [step, event]
  | handle m src =>
    rcases step_handle_cases s m src with ⟨_, h⟩ | ⟨_, _, h⟩ | ⟨r, _, hl, h⟩ | ⟨r, _, hl, h⟩
    · rw [h]; simp [event, isOutstanding, validatedPeer_out]
    · rw [h]; simp [event]
    · rw [h]; simp only [event]
      by_cases e : m.tid = tid
      · subst e; simp [isOutstanding, validatedPeer_out, hl, lookup_remove_self]
      · have e' : tid ≠ m.tid := fun x => e x.symm
        simp [e, isOutstanding, validatedPeer_out, lookup_remove_ne _ _ _ e']
    · rw [h]; simp [event, isOutstanding, lookup_insert_remove _ _ _ _ hl]
  | poll now pick =>
    have hs : step s (.poll now pick) = agentPoll s now pick := rfl
    rw [hs]
    rcases agentPoll_cases s now pick with ⟨t, h⟩ | ⟨t, r, hl, ⟨_, h⟩ | ⟨_, h⟩ | ⟨_, h⟩⟩
    · rw [h]; simp [event]
    · rw [h]; simp [event, isOutstanding, lookup_update_isSome]
    · rw [h]; simp only [event]
      by_cases e : t = tid
      · subst e; simp [isOutstanding, hl, lookup_remove_self]
      · have e' : tid ≠ t := fun x => e x.symm
        simp [e, isOutstanding, lookup_remove_ne _ _ _ e']
    · rw [h]; simp only [event]
      by_cases e : t = tid
      · subst e; simp [isOutstanding, hl, lookup_remove_self]
      · have e' : tid ≠ t := fun x => e x.symm
        simp [e, isOutstanding, lookup_remove_ne _ _ _ e']
  | cancel t => simp [step, event, isOutstanding, lookup_update_isSome]
  | cancelRtx t => simp [step, event, isOutstanding, lookup_update_isSome]
  | configure t a b c => simp [step, event, isOutstanding, lookup_update_isSome]
  | setRemoteCreds k => simp [step, event, isOutstanding]

/-! ### unique keys -/

theorem keys_insert_nodup (out : List (Nat × Req)) (t : Nat) (r : Req)
    (h : (out.map (·.1)).Nodup) : ((insert out t r).map (·.1)).Nodup := by
  unfold insert
  rw [List.map_cons, List.nodup_cons, keys_remove]
  exact ⟨by simp, List.Pairwise.filter _ h⟩

theorem keys_remove_nodup (out : List (Nat × Req)) (t : Nat)
    (h : (out.map (·.1)).Nodup) : ((remove out t).map (·.1)).Nodup := by
  rw [keys_remove]; exact List.Pairwise.filter _ h

theorem KeysNodup.step {s : State} (h : KeysNodup s) (op : Op) : KeysNodup (step s op).1 := by
  unfold KeysNodup at h ⊢
  cases op with
  | sendReq t b hc to now =>
    cases hl : (lookup s.out t).isSome with
    | true => rw [step_sendReq_dup _ _ _ _ _ _ hl]; exact h
    | false => rw [step_sendReq_new _ _ _ _ _ _ hl]; exact keys_insert_nodup _ _ _ h
  | sendOther b to => exact h
  | handle m src =>
    rcases step_handle_cases s m src with ⟨_, e⟩ | ⟨_, _, e⟩ | ⟨r, _, hl, e⟩ | ⟨r, _, hl, e⟩
    · rw [e, validatedPeer_out]; exact h
    · rw [e]; exact h
    · rw [e, validatedPeer_out]; exact keys_remove_nodup _ _ h
    · rw [e]; exact keys_insert_nodup _ _ _ (keys_remove_nodup _ _ h)
  | poll now pick =>
    have hs : Agent.step s (.poll now pick) = agentPoll s now pick := rfl
    rw [hs]
    rcases agentPoll_cases s now pick with ⟨t, e⟩ | ⟨t, r, hl, ⟨_, e⟩ | ⟨_, e⟩ | ⟨_, e⟩⟩
    · rw [e]; exact h
    · rw [e]; dsimp only; rw [keys_update]; exact h
    · rw [e]; exact keys_remove_nodup _ _ h
    · rw [e]; exact keys_remove_nodup _ _ h
  | cancel t => simp only [Agent.step]; rw [keys_update]; exact h
  | cancelRtx t => simp only [Agent.step]; rw [keys_update]; exact h
  | configure t a b c => simp only [Agent.step]; rw [keys_update]; exact h
  | setRemoteCreds k => exact h

theorem KeysNodup.of_reachable {s : State} (hr : Reachable s) : KeysNodup s :=
  Reachable.induction (P := KeysNodup) (fun _ _ => List.nodup_nil) (fun _ op h => KeysNodup.step h op) hr

/-! ### histories -/

/-- alternation of life-cycle events starting from a given outstanding bit -/
def AltFrom : Bool → List Ev → Prop
  | _, [] => True
  | false, e :: rest => e = .started ∧ AltFrom true rest
  | true, e :: rest => e ≠ .started ∧ AltFrom false rest

theorem AltFrom.alternates : ∀ es : List Ev, AltFrom false es → Alternates es
  | [], _ => trivial
  | [e], h => by
    obtain ⟨rfl, _⟩ := h
    trivial
  | e :: e' :: rest, h => by
    obtain ⟨rfl, h1, h2⟩ := h
    exact ⟨h1, AltFrom.alternates rest h2⟩

/-- the outstanding bit determined by a starting bit and the subsequent events -/
def lastBit (b : Bool) (es : List Ev) : Bool :=
  match es.getLast? with
  | none => b
  | some e => decide (e = .started)

theorem lastBit_nil (b : Bool) : lastBit b [] = b := rfl

theorem lastBit_cons (b : Bool) (e : Ev) (es : List Ev) :
    lastBit b (e :: es) = lastBit (decide (e = .started)) es := by
  cases es with
  | nil => rfl
  | cons e' es =>
    simp only [lastBit, List.getLast?_cons_cons]
    cases h : (e' :: es).getLast? with
    | none => simp at h
    | some x => rfl

/-- the event, if any, that a step constitutes for transaction `tid` -/
def evFor (s : State) (op : Op) (tid : Nat) : Option Ev :=
  match event op (step s op).2 with
  | some (t, e) => if t = tid then some e else none
  | none => none

theorem eventsOf_trace_cons (s : State) (op : Op) (ops : List Op) (tid : Nat) :
    eventsOf (trace s (op :: ops)) tid =
      (evFor s op tid).toList ++ eventsOf (trace (step s op).1 ops) tid := by
  unfold eventsOf events evFor
  rw [trace, List.filterMap_cons]
  cases h : event op (step s op).2 with
  | none => simp
  | some p =>
    obtain ⟨t, e⟩ := p
    by_cases ht : t = tid <;> simp [ht]

theorem evFor_spec (s : State) (op : Op) (tid : Nat) :
    match evFor s op tid with
    | none => isOutstanding (step s op).1 tid = isOutstanding s tid
    | some e => isOutstanding s tid = !decide (e = .started) ∧
        isOutstanding (step s op).1 tid = decide (e = .started) := by
  have h := step_lifecycle s op tid
  unfold evFor
  cases he : event op (step s op).2 with
  | none => rw [he] at h; exact h
  | some p =>
    obtain ⟨t, e⟩ := p
    rw [he] at h
    by_cases ht : t = tid
    · cases e <;> simpa [ht] using h
    · cases e <;> simpa [ht] using h

theorem history_lifecycle (ops : List Op) : ∀ (s : State) (tid : Nat),
    AltFrom (isOutstanding s tid) (eventsOf (trace s ops) tid) ∧
    isOutstanding (after s ops) tid = lastBit (isOutstanding s tid) (eventsOf (trace s ops) tid) := by
  induction ops with
  | nil => intro s tid; exact ⟨trivial, rfl⟩
  | cons op ops ih =>
    intro s tid
    have hs := evFor_spec s op tid
    obtain ⟨ih1, ih2⟩ := ih (step s op).1 tid
    rw [eventsOf_trace_cons, after_cons]
    cases he : evFor s op tid with
    | none =>
      rw [he] at hs
      rw [hs] at ih1 ih2
      exact ⟨ih1, ih2⟩
    | some e =>
      rw [he] at hs
      obtain ⟨h1, h2⟩ := hs
      rw [h2] at ih1 ih2
      simp only [Option.toList, List.cons_append, List.nil_append]
      rw [lastBit_cons]
      refine ⟨?_, ih2⟩
      rw [h1]
      cases e
      · exact ⟨rfl, ih1⟩
      · exact ⟨by decide, ih1⟩
      · exact ⟨by decide, ih1⟩
      · exact ⟨by decide, ih1⟩

/-! ### liveness: a decreasing measure -/

def reqWeight (r : Req) : Nat :=
  (r.timeouts.length - r.timeoutI) + (if r.lastSend.isSome then 0 else 1) + 1

def weight (out : List (Nat × Req)) : Nat := (out.map fun p => reqWeight p.2).sum

theorem reqPoll_sendData_weight (r : Req) (now : Time) (h : (reqPoll r now).2 = .sendData) :
    reqWeight (reqPoll r now).1 < reqWeight r := by
  cases hrc : r.recvCancelled
  case true => simp [reqPoll, hrc] at h
  cases hsc : r.sendCancelled <;> cases hls : r.lastSend
  case true.none => simp [reqPoll, hrc, hsc, hls] at h
  case false.none => simp [reqPoll, hrc, hsc, hls, reqWeight]
  all_goals
    rename_i h0
    by_cases h1 : r.timeoutI ≥ r.timeouts.length
    · by_cases h2 : h0 + msNs r.lastRto > now <;> simp [reqPoll, hrc, hls, h1, h2] at h
    · by_cases h3 : now < h0 + msNs (r.timeouts[r.timeoutI]?.getD 0)
      · simp [reqPoll, hrc, hls, h1, h3] at h
      · first
        | (simp [reqPoll, hrc, hsc, hls, h1, h3] at h; done)
        | (simp [reqPoll, hrc, hsc, hls, h1, h3, reqWeight]; omega)

theorem reqPoll_wait_then_ready (r : Req) (now t : Time) (h : (reqPoll r now).2 = .waitUntil t) :
    ∀ t', (reqPoll r t).2 ≠ .waitUntil t' := by
  intro t'
  cases hrc : r.recvCancelled
  case true => simp [reqPoll, hrc] at h
  cases hls : r.lastSend
  case none => cases hsc : r.sendCancelled <;> simp [reqPoll, hrc, hsc, hls] at h
  rename_i h0
  by_cases h1 : r.timeoutI ≥ r.timeouts.length
  · by_cases h2 : h0 + msNs r.lastRto > now
    · simp [reqPoll, hrc, hls, h1, h2] at h
      subst h
      simp [reqPoll, hrc, hls, h1]
    · simp [reqPoll, hrc, hls, h1, h2] at h
  · by_cases h3 : now < h0 + msNs (r.timeouts[r.timeoutI]?.getD 0)
    · simp [reqPoll, hrc, hls, h1, h3] at h
      subst h
      cases hsc : r.sendCancelled <;> simp [reqPoll, hrc, hls, h1, hsc]
    · cases hsc : r.sendCancelled <;> simp [reqPoll, hrc, hls, h1, h3, hsc] at h

theorem reqWeight_pos (r : Req) : 0 < reqWeight r := by unfold reqWeight; omega

theorem weight_cons (p : Nat × Req) (out : List (Nat × Req)) :
    weight (p :: out) = reqWeight p.2 + weight out := by
  simp [weight]

theorem weight_eq_zero (out : List (Nat × Req)) (h : weight out = 0) : out = [] := by
  cases out with
  | nil => rfl
  | cons p out => rw [weight_cons] at h; have := reqWeight_pos p.2; omega

theorem weight_remove_le (out : List (Nat × Req)) (t : Nat) : weight (remove out t) ≤ weight out := by
  induction out with
  | nil => exact Nat.le_refl _
  | cons p out ih =>
    rw [remove_cons]
    by_cases h : p.1 = t
    · rw [if_pos h, weight_cons]; omega
    · rw [if_neg h, weight_cons, weight_cons]; omega

theorem weight_remove_lt (out : List (Nat × Req)) (t : Nat) (r : Req) (h : lookup out t = some r) :
    weight (remove out t) < weight out := by
  induction out with
  | nil => simp at h
  | cons p out ih =>
    rw [lookup_cons] at h
    rw [remove_cons]
    by_cases hp : p.1 = t
    · rw [if_pos hp, weight_cons]
      have := weight_remove_le out t
      have := reqWeight_pos p.2
      omega
    · rw [if_neg hp] at h
      rw [if_neg hp, weight_cons, weight_cons]
      have := ih h
      omega

theorem update_of_not_mem (out : List (Nat × Req)) (t : Nat) (f : Req → Req)
    (h : t ∉ out.map (·.1)) : update out t f = out := by
  induction out with
  | nil => rfl
  | cons p out ih =>
    rw [List.map_cons, List.mem_cons, not_or] at h
    rw [update_cons, ih h.2, if_neg (fun e => h.1 e.symm)]

theorem weight_update_lt (out : List (Nat × Req)) (t : Nat) (r r' : Req)
    (hn : (out.map (·.1)).Nodup) (h : lookup out t = some r) (hw : reqWeight r' < reqWeight r) :
    weight (update out t fun _ => r') < weight out := by
  induction out with
  | nil => simp at h
  | cons p out ih =>
    rw [lookup_cons] at h
    rw [List.map_cons, List.nodup_cons] at hn
    rw [update_cons]
    by_cases hp : p.1 = t
    · rw [if_pos hp] at h
      injection h with h
      rw [if_pos hp, update_of_not_mem out t _ (hp ▸ hn.1), weight_cons, weight_cons, h]
      exact Nat.add_lt_add_right hw _
    · rw [if_neg hp] at h
      rw [if_neg hp, weight_cons, weight_cons]
      have := ih hn.2 h
      omega

theorem lookup_of_mem (out : List (Nat × Req)) (t : Nat) (r : Req)
    (hn : (out.map (·.1)).Nodup) (h : (t, r) ∈ out) : lookup out t = some r := by
  induction out with
  | nil => simp at h
  | cons p out ih =>
    rw [List.map_cons, List.nodup_cons] at hn
    rw [lookup_cons]
    rcases List.mem_cons.1 h with e | e
    · subst e; simp
    · have : p.1 ≠ t := by
        intro e'
        apply hn.1
        rw [e']
        exact List.mem_map.2 ⟨(t, r), e, rfl⟩
      rw [if_neg this]
      exact ih hn.2 e

/-! `ready` -/

theorem mem_ready (s : State) (now : Time) (t : Nat) (h : t ∈ ready s now) :
    ∃ r, (t, r) ∈ s.out ∧ ∀ w, (reqPoll r now).2 ≠ .waitUntil w := by
  unfold ready at h
  obtain ⟨p, hp, rfl⟩ := List.mem_map.1 h
  obtain ⟨hm, hf⟩ := List.mem_filter.1 hp
  refine ⟨p.2, hm, ?_⟩
  intro w hw
  rw [hw] at hf
  simp at hf

theorem ready_ne_nil (s : State) (now : Time) (p : Nat × Req) (hp : p ∈ s.out)
    (h : ∀ w, (reqPoll p.2 now).2 ≠ .waitUntil w) : ready s now ≠ [] := by
  have : p.1 ∈ ready s now := by
    unfold ready
    refine List.mem_map.2 ⟨p, List.mem_filter.2 ⟨hp, ?_⟩, rfl⟩
    cases hr : (reqPoll p.2 now).2 with
    | waitUntil w => exact absurd hr (h w)
    | _ => rfl
  intro e; rw [e] at this; simp at this

theorem ready_nil_all_wait (s : State) (now : Time) (h : ready s now = []) (p : Nat × Req)
    (hp : p ∈ s.out) : ∃ w, (reqPoll p.2 now).2 = .waitUntil w := by
  cases hr : (reqPoll p.2 now).2 with
  | waitUntil w => exact ⟨w, rfl⟩
  | _ =>
    exfalso
    apply ready_ne_nil s now p hp _ h
    intro w hw; rw [hr] at hw; cases hw

/-! ### `minWait` and the two kinds of poll -/

/-- the folding step of `minWait` -/
def minStep (now : Time) (acc : Option Time) (p : Nat × Req) : Option Time :=
  match (reqPoll p.2 now).2 with
  | .waitUntil t => (match acc with
    | none => some t
    | some a => if t < a then some t else some a)
  | _ => acc

theorem minWait_eq (s : State) (now : Time) : minWait s now = s.out.foldl (minStep now) none := rfl

theorem minStep_fold (now : Time) (l : List (Nat × Req)) : ∀ acc : Option Time,
    (acc.isSome = true ∨ ∃ p ∈ l, ∃ w, (reqPoll p.2 now).2 = .waitUntil w) →
    ∃ t, l.foldl (minStep now) acc = some t ∧
      (acc = some t ∨ ∃ p ∈ l, (reqPoll p.2 now).2 = .waitUntil t) := by
  induction l with
  | nil =>
    intro acc h
    rcases h with h | ⟨p, hp, _⟩
    · cases acc with
      | none => cases h
      | some a => exact ⟨a, rfl, Or.inl rfl⟩
    · cases hp
  | cons p l ih =>
    intro acc h
    rw [List.foldl_cons]
    cases hr : (reqPoll p.2 now).2 with
    | waitUntil w =>
      have hx : ∃ x, minStep now acc p = some x ∧ (x = w ∨ acc = some x) := by
        unfold minStep; rw [hr]
        cases acc with
        | none => exact ⟨w, rfl, Or.inl rfl⟩
        | some a =>
          by_cases hlt : w < a
          · exact ⟨w, by simp [hlt], Or.inl rfl⟩
          · exact ⟨a, by simp [hlt], Or.inr rfl⟩
      obtain ⟨x, hx1, hx2⟩ := hx
      obtain ⟨t, ht1, ht2⟩ := ih (minStep now acc p) (Or.inl (by rw [hx1]; rfl))
      refine ⟨t, ht1, ?_⟩
      rcases ht2 with e | ⟨q, hq, hq'⟩
      · rw [hx1] at e
        injection e with e
        subst e
        rcases hx2 with e | e
        · subst e; exact Or.inr ⟨p, List.mem_cons_self, hr⟩
        · exact Or.inl e
      · exact Or.inr ⟨q, List.mem_cons_of_mem _ hq, hq'⟩
    | sendData | timedOut | cancelled =>
      have hx : minStep now acc p = acc := by unfold minStep; rw [hr]
      rw [hx]
      have h' : acc.isSome = true ∨ ∃ q ∈ l, ∃ w, (reqPoll q.2 now).2 = .waitUntil w := by
        rcases h with h | ⟨q, hq, w, hw⟩
        · exact Or.inl h
        · rcases List.mem_cons.1 hq with e | e
          · subst e; rw [hr] at hw; cases hw
          · exact Or.inr ⟨q, e, w, hw⟩
      obtain ⟨t, ht1, ht2⟩ := ih acc h'
      refine ⟨t, ht1, ?_⟩
      rcases ht2 with e | ⟨q, hq, hq'⟩
      · exact Or.inl e
      · exact Or.inr ⟨q, List.mem_cons_of_mem _ hq, hq'⟩

/-- nothing ready but something outstanding: the poll changes nothing and names an instant at
    which some transaction is ready -/
theorem poll_wait (s : State) (now : Time) (pick : Option Nat) (hr : ready s now = [])
    (hne : s.out ≠ []) :
    ∃ t, agentPoll s now pick = (s, .waitUntil t) ∧ ready s t ≠ [] := by
  obtain ⟨p, hp⟩ := List.exists_mem_of_ne_nil _ hne
  obtain ⟨t, ht1, ht2⟩ := minStep_fold now s.out none
    (Or.inr ⟨p, hp, ready_nil_all_wait s now hr p hp⟩)
  refine ⟨t, ?_, ?_⟩
  · unfold agentPoll
    rw [minWait_eq, ht1]
    simp only [hr]
    cases pick <;> simp
  · rcases ht2 with e | ⟨q, hq, hq'⟩
    · cases e
    · exact ready_ne_nil s t q hq (reqPoll_wait_then_ready q.2 now t hq')

/-- something ready: the poll serves a transaction and the measure decreases -/
theorem poll_ready_decreases (s : State) (now : Time) (hn : KeysNodup s)
    (hne : ready s now ≠ []) :
    weight (agentPoll s now none).1.out < weight s.out := by
  cases hrd : ready s now with
  | nil => exact absurd hrd hne
  | cons t rest =>
    have hm : t ∈ ready s now := by rw [hrd]; exact List.mem_cons_self
    obtain ⟨r, hr1, hr2⟩ := mem_ready s now t hm
    have hl := lookup_of_mem s.out t r hn hr1
    unfold agentPoll
    simp only [hrd, List.head?_cons, hl]
    cases hp : reqPoll r now with
    | mk r' ret =>
      cases ret with
      | waitUntil w => exact absurd (by rw [hp]) (hr2 w)
      | sendData =>
        have := reqPoll_sendData_weight r now (by rw [hp])
        rw [hp] at this
        exact weight_update_lt s.out t r r' hn hl this
      | timedOut => exact weight_remove_lt s.out t r hl
      | cancelled => exact weight_remove_lt s.out t r hl

end StunVerif.Agent
