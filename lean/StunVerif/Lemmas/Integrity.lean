/-
Helper lemmas for C04 (integrity validation) and C09.
-/
import StunVerif.Spec.Builder
import StunVerif.Lemmas.Builder
namespace StunVerif
open Spec

/-! ### the decoders of the two integrity attributes as decision lists -/

theorem fromRaw_mi (raw : RawAttr) (h : raw.ty = tyMI) :
    fromRaw .messageIntegrity raw =
      if raw.value.length < 20 then .error (.truncated 20 raw.value.length)
      else if raw.value.length > 20 then .error (.tooLarge 20 raw.value.length)
      else .ok (.messageIntegrity raw.value) := by
  have hk : raw.ty = Kind.messageIntegrity.code := h
  simp only [fromRaw, RawAttr.checkTypeAndLen, hk, checkLen, ne_eq, not_true, if_false,
    bind, Except.bind]
  by_cases h1 : raw.value.length < 20
  · simp [h1]
  · by_cases h2 : raw.value.length > 20
    · simp [h1, h2]
    · simp [h1, h2]

theorem fromRaw_mi256 (raw : RawAttr) (h : raw.ty = tyMI256) :
    fromRaw .messageIntegritySha256 raw =
      if raw.value.length < 16 then .error (.truncated 16 raw.value.length)
      else if raw.value.length > 32 then .error (.tooLarge 32 raw.value.length)
      else if raw.value.length % 4 ≠ 0 then .error .invalid
      else .ok (.messageIntegritySha256 raw.value) := by
  have hk : raw.ty = Kind.messageIntegritySha256.code := h
  simp only [fromRaw, RawAttr.checkTypeAndLen, hk, checkLen, ne_eq, not_true, if_false,
    bind, Except.bind]
  by_cases h1 : raw.value.length < 16
  · simp [h1]
  · by_cases h2 : raw.value.length > 32
    · simp [h1, h2]
    · simp [h1, h2]

/-! ### the location scan -/

/-- what the scan does with the attribute it was looking for -/
def scanHit (H : Hashes) (key : Bytes) (algo : Algo) (mac : Bytes) (orig : Bytes) (off : Nat)
    (attr : RawAttr) : Except PErr Algo :=
  match algo with
  | .sha1 =>
    match fromRaw .messageIntegrity attr with
    | .error e => .error e
    | .ok (.messageIntegrity h) =>
      if h ≠ mac then .error (.fault .panic)
      else if off + 24 - 20 ≥ 65536 then .error (.fault .overflow)
      else if H.hmacSha1 key (hmacInput orig off 24) = mac then .ok algo
      else .error .integrityFailed
    | .ok _ => .error (.fault .unreachable)
  | .sha256 =>
    match fromRaw .messageIntegritySha256 attr with
    | .error e => .error e
    | .ok (.messageIntegritySha256 h) =>
      if h ≠ mac then .error (.fault .panic)
      else if off + (attr.value.length + 4) - 20 ≥ 65536 then .error (.fault .overflow)
      else if (H.hmacSha256 key (hmacInput orig off (attr.value.length + 4))).take mac.length = mac
        then .ok algo
      else .error .integrityFailed
    | .ok _ => .error (.fault .unreachable)

theorem validateScan_step (H : Hashes) (key : Bytes) (algo : Algo) (mac : Bytes) (fuel : Nat)
    (orig data : Bytes) (off : Nat) (attr : RawAttr) (hne : data ≠ [])
    (hr : rawFromBytes data = .ok attr) :
    validateScan H key algo mac (fuel + 1) orig data off =
      if attr.ty = integrityTy algo then scanHit H key algo mac orig off attr
      else validateScan H key algo mac fuel orig (data.drop attr.paddedLen) (off + attr.paddedLen) := by
  have hne' : data.isEmpty = false := by simpa using hne
  rw [validateScan]
  simp only [hne', Bool.false_eq_true, if_false, hr]
  cases algo with
  | sha1 =>
    by_cases h : attr.ty = tyMI
    · simp only [integrityTy, h, if_true, scanHit, decide_true, Bool.and_self]
      rfl
    · simp [integrityTy, h]
  | sha256 =>
    by_cases h : attr.ty = tyMI256
    · simp only [integrityTy, h, if_true, scanHit, decide_true, Bool.and_self, reduceCtorEq,
        decide_false, Bool.false_and, Bool.false_eq_true, if_false]
      rfl
    · simp [integrityTy, h]

/-- on a tiled body the scan stops at the first attribute of the type it looks for -/
theorem validateScan_tiles (H : Hashes) (key : Bytes) (algo : Algo) (mac : Bytes) (orig : Bytes) :
    ∀ (fuel : Nat) (ts : List Tlv) (off o : Nat) (x : Tlv), (∀ t ∈ ts, t.wf) →
    (ts.flatMap Tlv.enc).length < fuel → (ts.flatMap Tlv.enc).length < 65536 →
    firstOfType (integrityTy algo) off ts = some (o, x) →
    validateScan H key algo mac fuel orig (ts.flatMap Tlv.enc) off =
      scanHit H key algo mac orig o x.raw := by
  intro fuel
  induction fuel with
  | zero => intro ts off o x _ hl; omega
  | succ n ih =>
    intro ts off o x hwf hl h64 hf
    cases ts with
    | nil => simp [firstOfType] at hf
    | cons t ts =>
      have htwf : t.wf := hwf t (List.mem_cons_self ..)
      have hwf' : ∀ u ∈ ts, u.wf := fun u hu => hwf u (List.mem_cons_of_mem _ hu)
      rw [flatMap_cons_enc] at hl h64 ⊢
      have hr := raw_step_enc t htwf (ts.flatMap Tlv.enc) (by omega)
      have hp := Tlv.paddedLen_raw t htwf
      have hlen : (t.enc ++ ts.flatMap Tlv.enc).length = t.enc.length + (ts.flatMap Tlv.enc).length :=
        List.length_append
      have h4 : 4 ≤ t.enc.length := by rw [Tlv.enc_length]; omega
      rw [validateScan_step H key algo mac n orig _ off t.raw (Tlv.enc_ne_nil t) hr]
      have hty : t.raw.ty = t.ty := rfl
      rw [hty]
      simp only [firstOfType] at hf
      by_cases h : t.ty = integrityTy algo
      · rw [if_pos h] at hf ⊢
        simp only [Option.some.injEq, Prod.mk.injEq] at hf
        obtain ⟨rfl, rfl⟩ := hf
        rfl
      · rw [if_neg h] at hf ⊢
        rw [hp, drop_enc]
        exact ih ts _ o x hwf' (by omega) (by omega) hf

/-! ### `firstOfType` -/

theorem firstOfType_find (ty : Nat) : ∀ (ts : List Tlv) (off : Nat),
    (ts.map Tlv.raw).find? (·.ty = ty) = (firstOfType ty off ts).map (·.2.raw) := by
  intro ts
  induction ts with
  | nil => intro off; rfl
  | cons t ts ih =>
    intro off
    simp only [List.map_cons, firstOfType]
    by_cases h : t.ty = ty
    · have : t.raw.ty = ty := h
      simp [this, h]
    · have : ¬ t.raw.ty = ty := h
      simp only [List.find?_cons, this, decide_false, h, if_false]
      exact ih _

/-- location facts of the first attribute of a type -/
theorem firstOfType_split (ty : Nat) : ∀ (ts : List Tlv) (off o : Nat) (x : Tlv),
    firstOfType ty off ts = some (o, x) →
    ∃ pre post, ts = pre ++ x :: post ∧ (∀ t ∈ pre, t.ty ≠ ty) ∧ x.ty = ty ∧
      o = off + (pre.flatMap Tlv.enc).length := by
  intro ts
  induction ts with
  | nil => intro off o x h; simp [firstOfType] at h
  | cons t ts ih =>
    intro off o x h
    simp only [firstOfType] at h
    by_cases ht : t.ty = ty
    · rw [if_pos ht] at h
      simp only [Option.some.injEq, Prod.mk.injEq] at h
      obtain ⟨rfl, rfl⟩ := h
      exact ⟨[], ts, rfl, by simp, ht, by simp⟩
    · rw [if_neg ht] at h
      obtain ⟨pre, post, h1, h2, h3, h4⟩ := ih _ _ _ h
      refine ⟨t :: pre, post, by rw [h1]; rfl, ?_, h3, ?_⟩
      · intro u hu
        rcases List.mem_cons.mp hu with rfl | hu
        · exact ht
        · exact h2 u hu
      · rw [h4, flatMap_cons_enc, List.length_append]; omega

theorem firstOfType_none (ty : Nat) : ∀ (ts : List Tlv) (off : Nat),
    firstOfType ty off ts = none ↔ ∀ t ∈ ts, t.ty ≠ ty := by
  intro ts
  induction ts with
  | nil => intro off; simp [firstOfType]
  | cons t ts ih =>
    intro off
    simp only [firstOfType]
    by_cases ht : t.ty = ty
    · simp [ht]
    · rw [if_neg ht, ih]
      simp [ht]

theorem firstOfType_bound (ty : Nat) (ts : List Tlv) (off o : Nat) (x : Tlv)
    (h : firstOfType ty off ts = some (o, x)) :
    off ≤ o ∧ o + x.enc.length ≤ off + (ts.flatMap Tlv.enc).length := by
  obtain ⟨pre, post, rfl, _, _, rfl⟩ := firstOfType_split ty ts off o x h
  simp only [List.flatMap_append, List.flatMap_cons, List.length_append]
  omega

/-! ### lookups among the exposed attributes -/

theorem orderOk_cons_mi (rest : List Nat) :
    orderOk (tyMI :: rest) = (rest.all isEnding && !rest.contains tyMI && orderOk rest) := by
  rw [orderOk, if_neg (by decide), if_pos (by decide)]

theorem orderOk_cons_fp (rest : List Nat) : orderOk (tyFP :: rest) = rest.isEmpty := by
  rw [orderOk, if_pos rfl]

theorem orderOk_cons_plain (t : Nat) (rest : List Nat) (h1 : t ≠ tyFP)
    (h2 : isIntegrity t = false) : orderOk (t :: rest) = orderOk rest := by
  rw [orderOk, if_neg h1, if_neg (by simp [h2])]

/-- under the ordering rule the first MESSAGE-INTEGRITY-SHA256 is exposed -/
theorem exposed_find_mi256 : ∀ (as : List RawAttr), orderOk (as.map (·.ty)) = true →
    (exposed as).find? (·.ty = tyMI256) = as.find? (·.ty = tyMI256)
  | [], _ => rfl
  | a :: rest, h => by
    by_cases hi : isIntegrity a.ty = true
    · by_cases h256 : a.ty = tyMI256
      · obtain ⟨tail, ht, _⟩ := exposed_cons_int a rest hi
        rw [ht]; simp [h256]
      · have hmi : a.ty = tyMI := by simpa [isIntegrity, h256] using hi
        cases rest with
        | nil => rw [exposed_int_nil _ hi]
        | cons n rest' =>
          rw [exposed_int_cons _ _ _ hi]
          simp only [List.map_cons, hmi, orderOk_cons_mi, Bool.and_eq_true, List.all_cons,
            Bool.not_eq_true', List.contains_cons, Bool.or_eq_false_iff, beq_eq_false_iff_ne] at h
          obtain ⟨⟨⟨hne, _⟩, hnm, _⟩, ho⟩ := h
          by_cases hn : n.ty = tyMI256
          · rw [if_pos ⟨hmi, hn⟩]
            simp [h256, hn]
          · rw [if_neg (by simp [hn])]
            have hfp : n.ty = tyFP := by
              simp only [isEnding, Bool.or_eq_true, decide_eq_true_eq] at hne
              rcases hne with (h' | h') | h'
              · exact absurd h'.symm hnm
              · exact absurd h' hn
              · exact h'
            rw [hfp, orderOk_cons_fp] at ho
            have hr : rest' = [] := by
              cases rest' with
              | nil => rfl
              | cons _ _ => simp at ho
            subst hr
            have e1 : ¬ tyMI = tyMI256 := by decide
            have e2 : ¬ tyFP = tyMI256 := by decide
            simp [hfp, hmi, e1, e2]
    · have hi' : isIntegrity a.ty = false := by simpa using hi
      have h256 : ¬ a.ty = tyMI256 := by
        intro h'; simp [isIntegrity, h'] at hi'
      rw [exposed_cons_nonint _ _ hi']
      simp only [List.find?_cons, h256, decide_false]
      by_cases hfp : a.ty = tyFP
      · simp only [List.map_cons, hfp, orderOk_cons_fp] at h
        have hr : rest = [] := by
          cases rest with
          | nil => rfl
          | cons _ _ => simp at h
        subst hr; rfl
      · simp only [List.map_cons, orderOk_cons_plain _ _ hfp hi'] at h
        exact exposed_find_mi256 rest h

/-- without a MESSAGE-INTEGRITY-SHA256 the first MESSAGE-INTEGRITY is exposed -/
theorem exposed_find_mi : ∀ (as : List RawAttr), as.find? (·.ty = tyMI256) = none →
    (exposed as).find? (·.ty = tyMI) = as.find? (·.ty = tyMI)
  | [], _ => rfl
  | a :: rest, h => by
    have h256 : ¬ a.ty = tyMI256 := by
      intro h'; simp [h'] at h
    have hrest : rest.find? (·.ty = tyMI256) = none := by
      simpa [List.find?_cons, h256] using h
    by_cases hi : isIntegrity a.ty = true
    · have hmi : a.ty = tyMI := by simpa [isIntegrity, h256] using hi
      obtain ⟨tail, ht, _⟩ := exposed_cons_int a rest hi
      rw [ht]; simp [hmi]
    · have hi' : isIntegrity a.ty = false := by simpa using hi
      have hmi : ¬ a.ty = tyMI := by
        intro h'; simp [isIntegrity, h'] at hi'
      rw [exposed_cons_nonint _ _ hi']
      simp only [List.find?_cons, hmi, decide_false]
      exact exposed_find_mi rest hrest

/-! ### the verdict at the attribute found -/

theorem scanHit_sha256 (H : Hashes) (key orig : Bytes) (o : Nat) (x : Tlv) (hty : x.ty = tyMI256)
    (h1 : ¬ x.value.length < 16) (h2 : ¬ x.value.length > 32) (h3 : ¬ x.value.length % 4 ≠ 0)
    (hb : o + (x.value.length + 4) - 20 < 65536) :
    scanHit H key .sha256 x.value orig o x.raw =
      if (H.hmacSha256 key (hmacInput orig o (x.value.length + 4))).take x.value.length = x.value
      then .ok .sha256 else .error .integrityFailed := by
  have hv : x.raw.value = x.value := rfl
  simp only [scanHit, fromRaw_mi256 x.raw hty, hv, if_neg h1, if_neg h2, if_neg h3, ne_eq,
    not_true, if_false, if_neg (Nat.not_le.mpr hb)]

theorem scanHit_sha1 (H : Hashes) (key orig : Bytes) (o : Nat) (x : Tlv) (hty : x.ty = tyMI)
    (h1 : ¬ x.value.length < 20) (h2 : ¬ x.value.length > 20)
    (hb : o + 24 - 20 < 65536) :
    scanHit H key .sha1 x.value orig o x.raw =
      if H.hmacSha1 key (hmacInput orig o 24) = x.value
      then .ok .sha1 else .error .integrityFailed := by
  have hv : x.raw.value = x.value := rfl
  simp only [scanHit, fromRaw_mi x.raw hty, hv, if_neg h1, if_neg h2, ne_eq,
    not_true, if_false, if_neg (Nat.not_le.mpr hb)]

/-! ### `validate_integrity` on a well-formed buffer -/

theorem wellFormedAs_iter (b : Bytes) (ts : List Tlv) (hw : WellFormedAs b ts) :
    (⟨b⟩ : Msg).iter = exposed (ts.map Tlv.raw) := by
  rw [← wellFormedAs_allAttrs b ts hw]
  exact iterGo_eq_exposed _ _

theorem wellFormedAs_raw_mi256 (b : Bytes) (ts : List Tlv) (hw : WellFormedAs b ts) :
    (⟨b⟩ : Msg).rawAttribute tyMI256 = (firstOfType tyMI256 20 ts).map (·.2.raw) := by
  unfold Msg.rawAttribute
  rw [wellFormedAs_iter b ts hw, ← firstOfType_find]
  apply exposed_find_mi256
  rw [List.map_map]
  exact hw.2.2.2.2.2.2.1

theorem wellFormedAs_raw_mi (b : Bytes) (ts : List Tlv) (hw : WellFormedAs b ts)
    (hn : firstOfType tyMI256 20 ts = none) :
    (⟨b⟩ : Msg).rawAttribute tyMI = (firstOfType tyMI 20 ts).map (·.2.raw) := by
  unfold Msg.rawAttribute
  rw [wellFormedAs_iter b ts hw, ← firstOfType_find]
  apply exposed_find_mi
  rw [firstOfType_find tyMI256 ts 20, hn]; rfl

/-- the scan of `validate_integrity` on a well-formed buffer -/
theorem wellFormedAs_scan (H : Hashes) (key : Bytes) (algo : Algo) (mac : Bytes) (b : Bytes)
    (ts : List Tlv) (hw : WellFormedAs b ts) (o : Nat) (x : Tlv)
    (hf : firstOfType (integrityTy algo) 20 ts = some (o, x)) :
    validateScan H key algo mac b.length b (b.drop 20) 20 = scanHit H key algo mac b o x.raw := by
  obtain ⟨h20, _, _, hlen, hwf, htile, _, _⟩ := hw
  have hdl : (ts.flatMap Tlv.enc).length = b.length - 20 := by rw [← htile, List.length_drop]
  have h64 := beNat_take2_lt (b.drop 2)
  rw [htile]
  exact validateScan_tiles H key algo mac b b.length ts 20 o x hwf (by omega) (by omega) hf

theorem wellFormedAs_first_bound (b : Bytes) (ts : List Tlv) (hw : WellFormedAs b ts) (ty o : Nat)
    (x : Tlv) (hf : firstOfType ty 20 ts = some (o, x)) :
    20 ≤ o ∧ o + 4 + x.value.length ≤ b.length ∧ b.length < 65536 + 20 := by
  obtain ⟨h20, _, _, hlen, hwf, htile, _, _⟩ := hw
  have hdl : (ts.flatMap Tlv.enc).length = b.length - 20 := by rw [← htile, List.length_drop]
  have h64 := beNat_take2_lt (b.drop 2)
  have := firstOfType_bound ty ts 20 o x hf
  rw [Tlv.enc_length] at this
  omega

theorem validateIntegrity_wellFormed (H : Hashes) (b : Bytes) (ts : List Tlv) (c : Creds)
    (hw : WellFormedAs b ts) :
    (⟨b⟩ : Msg).validateIntegrity H c = Spec.validate H b ts c := by
  unfold Msg.validateIntegrity Spec.validate
  cases hf : firstOfType tyMI256 20 ts with
  | some p =>
    obtain ⟨o, x⟩ := p
    obtain ⟨_, _, _, _, hty, _⟩ := firstOfType_split _ _ _ _ _ hf
    have hb := wellFormedAs_first_bound b ts hw _ _ _ hf
    have hv : x.raw.value = x.value := rfl
    rw [wellFormedAs_raw_mi256 b ts hw, hf]
    simp only [Option.map, fromRaw_mi256 x.raw hty, hv]
    by_cases h1 : x.value.length < 16
    · simp only [if_pos h1]
    · by_cases h2 : x.value.length > 32
      · simp only [if_neg h1, if_pos h2]
      · by_cases h3 : x.value.length % 4 ≠ 0
        · simp only [if_neg h1, if_neg h2, if_pos h3]
        · simp only [if_neg h1, if_neg h2, if_neg h3]
          rw [wellFormedAs_scan H _ .sha256 _ b ts hw o x hf,
            scanHit_sha256 H _ b o x hty h1 h2 h3 (by omega)]
  | none =>
    rw [wellFormedAs_raw_mi256 b ts hw, hf, wellFormedAs_raw_mi b ts hw hf]
    cases hf1 : firstOfType tyMI 20 ts with
    | some p =>
      obtain ⟨o, x⟩ := p
      obtain ⟨_, _, _, _, hty, _⟩ := firstOfType_split _ _ _ _ _ hf1
      have hb := wellFormedAs_first_bound b ts hw _ _ _ hf1
      have hv : x.raw.value = x.value := rfl
      simp only [Option.map, fromRaw_mi x.raw hty, hv]
      by_cases h1 : x.value.length < 20
      · simp only [if_pos h1]
      · by_cases h2 : x.value.length > 20
        · simp only [if_neg h1, if_pos h2]
        · simp only [if_neg h1, if_neg h2]
          rw [wellFormedAs_scan H _ .sha1 _ b ts hw o x hf1,
            scanHit_sha1 H _ b o x hty h1 h2 (by omega)]
    | none => rfl

theorem validate_no_fault (H : Hashes) (b : Bytes) (ts : List Tlv) (c : Creds) (f : Fault) :
    Spec.validate H b ts c ≠ .error (.fault f) := by
  unfold Spec.validate
  intro h
  repeat' split at h
  all_goals cases h

/-! ### the HMAC input -/

@[simp] theorem setLen_length (l : Bytes) (n : Nat) : (setLen l n).length = l.length := by
  unfold setLen; split <;> simp

theorem setLen_getElem? (l : Bytes) (n i : Nat) (h2 : i ≠ 2) (h3 : i ≠ 3) :
    (setLen l n)[i]? = l[i]? := by
  unfold setLen
  split
  · match i, h2, h3 with
    | 0, _, _ => rfl
    | 1, _, _ => rfl
    | 2, h2, _ => exact absurd rfl h2
    | 3, _, h3 => exact absurd rfl h3
    | i + 4, _, _ => simp
  · rfl

theorem setLen_inj (l l' : Bytes) (n : Nat) (h : setLen l n = setLen l' n) (h4 : 4 ≤ l.length)
    (h4' : 4 ≤ l'.length) (h2 : (l.drop 2).take 2 = (l'.drop 2).take 2) : l = l' := by
  match l, l', h4, h4' with
  | t0 :: t1 :: a :: b :: r, t0' :: t1' :: a' :: b' :: r', _, _ =>
    simp only [setLen, List.cons.injEq, true_and] at h
    simp only [List.drop_succ_cons, List.drop_zero, List.take_succ_cons, List.take_zero,
      List.cons.injEq, and_true] at h2
    obtain ⟨rfl, rfl, rfl⟩ := h
    obtain ⟨rfl, rfl⟩ := h2
    rfl

theorem hmacInput_length (d : Bytes) (off e : Nat) (h : off ≤ d.length) :
    (hmacInput d off e).length = off := by
  unfold hmacInput
  rw [setLen_length, List.length_take]; omega

/-- the length field of a well-formed buffer is determined by the buffer length -/
theorem wellFormedAs_lenField (b : Bytes) (ts : List Tlv) (hw : WellFormedAs b ts) :
    (b.drop 2).take 2 = encBE 2 (b.length - 20) := by
  obtain ⟨h20, _, _, hlen, _⟩ := hw
  have hl : ((b.drop 2).take 2).length = 2 := by
    rw [List.length_take, List.length_drop]; omega
  rw [← encBE_beNat 2 _ hl]
  congr 1; omega

/-- the bytes of a well-formed buffer from its first attribute of type `ty` on -/
theorem wellFormedAs_drop_first (b : Bytes) (ts : List Tlv) (hw : WellFormedAs b ts) (ty o : Nat)
    (x : Tlv) (hf : firstOfType ty 20 ts = some (o, x)) :
    x.ty = ty ∧ ∃ rest, b.drop o = enc16 ty ++ enc16 x.value.length ++ x.value ++ rest := by
  obtain ⟨pre, post, hts, _, hty, ho⟩ := firstOfType_split _ _ _ _ _ hf
  refine ⟨hty, x.pad ++ post.flatMap Tlv.enc, ?_⟩
  obtain ⟨_, _, _, _, _, htile, _, _⟩ := hw
  rw [ho, ← List.drop_drop, htile, hts, List.flatMap_append, List.drop_left, flatMap_cons_enc,
    Tlv.enc, hty]
  simp only [List.append_assoc]

/-- same HMAC input and same MAC: the buffers agree up to the end of the integrity attribute -/
theorem tamper_core (b b' : Bytes) (ts ts' : List Tlv) (ty : Nat)
    (off off' : Nat) (x x' : Tlv)
    (hw : WellFormedAs b ts) (hw' : WellFormedAs b' ts') (hlen : b.length = b'.length)
    (hf : firstOfType ty 20 ts = some (off, x))
    (hf' : firstOfType ty 20 ts' = some (off', x'))
    (hin : hmacInput b off (x.value.length + 4) = hmacInput b' off' (x'.value.length + 4))
    (hmac : x.value = x'.value) :
    b.take (off + 4 + x.value.length) = b'.take (off + 4 + x.value.length) := by
  have hb := wellFormedAs_first_bound b ts hw ty off x hf
  have hb' := wellFormedAs_first_bound b' ts' hw' ty off' x' hf'
  have hoff : off = off' := by
    have := congrArg List.length hin
    rw [hmacInput_length _ _ _ (by omega), hmacInput_length _ _ _ (by omega)] at this
    exact this
  subst hoff
  have hvl : x'.value.length = x.value.length := by rw [hmac]
  rw [hvl] at hin
  unfold hmacInput at hin
  have htake : b.take off = b'.take off := by
    refine setLen_inj _ _ _ hin (by rw [List.length_take]; omega)
      (by rw [List.length_take]; omega) ?_
    rw [List.drop_take, List.drop_take, List.take_take, List.take_take,
      Nat.min_eq_left (by omega), wellFormedAs_lenField b ts hw,
      wellFormedAs_lenField b' ts' hw', hlen]
  obtain ⟨_, rest, hd⟩ := wellFormedAs_drop_first b ts hw ty off x hf
  obtain ⟨_, rest', hd'⟩ := wellFormedAs_drop_first b' ts' hw' ty off x' hf'
  have ht : ∀ r : Bytes, (enc16 ty ++ enc16 x.value.length ++ x.value ++ r).take
      (4 + x.value.length) = enc16 ty ++ enc16 x.value.length ++ x.value :=
    fun r => List.take_left' (by simp; omega)
  rw [show off + 4 + x.value.length = off + (4 + x.value.length) by omega,
    List.take_add (l := b) (i := off), List.take_add (l := b') (i := off), htake, hd, hd',
    ← hmac, ht, ht]

end StunVerif
