import StunVerif.Spec.Builder
import StunVerif.Lemmas.Builder
namespace StunVerif
end StunVerif
