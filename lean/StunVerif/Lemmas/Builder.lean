/-
Helper lemmas for C11: inversion of the builder operations, invariants of reachable builders
(type list, attribute sizes, tail shape) and the length field of the built bytes.
-/
import StunVerif.Spec.Builder
import StunVerif.Lemmas.Write
import StunVerif.Lemmas.Parse
namespace StunVerif
open Spec

/-! ### `find?` / `any` on the type list -/

theorem hasAny_none_iff (b : Builder) (ts : List Nat) :
    b.hasAnyAttribute ts = none ↔ ∀ t ∈ b.types, t ∉ ts := by
  simp [Builder.hasAnyAttribute, List.find?_eq_none]

theorem hasAny_some_mem {b : Builder} {ts : List Nat} {t : Nat}
    (h : b.hasAnyAttribute ts = some t) : t ∈ b.types ∧ t ∈ ts := by
  unfold Builder.hasAnyAttribute at h
  have h1 := List.find?_some h
  have h2 := List.mem_of_find?_eq_some h
  exact ⟨h2, by simpa using h1⟩

theorem hasAttribute_iff (b : Builder) (t : Nat) : b.hasAttribute t = true ↔ t ∈ b.types := by
  simp [Builder.hasAttribute]

/-! ### inversion of the operations -/

theorem addGuard_ok_iff (b : Builder) (ty : Nat) :
    b.addGuard ty = .ok () ↔ ∀ t ∈ b.types, t ∉ [ty, tyMI, tyMI256, tyFP] := by
  unfold Builder.addGuard
  cases h : b.hasAnyAttribute [ty, tyMI, tyMI256, tyFP] with
  | none => simpa using (hasAny_none_iff b _).mp h
  | some t =>
    obtain ⟨h1, h2⟩ := hasAny_some_mem h
    simp only
    constructor
    · intro hg
      exfalso
      simp only [List.mem_cons, List.not_mem_nil, or_false] at h2
      split at hg
      · cases hg
      · split at hg
        · cases hg
        · split at hg
          · cases hg
          · split at hg
            · cases hg
            · omega
    · intro hall
      exact absurd h2 (hall t h1)

theorem addGuard_cases (b : Builder) (ty : Nat) :
    b.addGuard ty = .ok () ∨ ∃ e, b.addGuard ty = .error e := by
  cases h : b.addGuard ty with
  | ok u => exact Or.inl rfl
  | error e => exact Or.inr ⟨e, rfl⟩

theorem add_ok_iff (b b' : Builder) (a : BAttr) :
    b.add a = .ok b' ↔
      b.addGuard a.ty = .ok () ∧
      b' = { b with attrs := b.attrs ++ [a], types := b.types ++ [a.ty] } := by
  unfold Builder.add
  cases h : b.addGuard a.ty with
  | ok u => simp [eq_comm]
  | error e => simp

theorem add_err_iff (b : Builder) (a : BAttr) :
    (∃ e, b.add a = .error e) ↔ ¬ b.addGuard a.ty = .ok () := by
  unfold Builder.add
  cases h : b.addGuard a.ty with
  | ok u => simp
  | error e => simp

/-- the type list an integrity operation checks -/
def integrityBlockers : Algo → List Nat
  | .sha1 => [tyMI, tyMI256, tyFP]
  | .sha256 => [tyMI256, tyFP]

def integrityTy : Algo → Nat
  | .sha1 => tyMI
  | .sha256 => tyMI256

def integrityExtra : Algo → Nat
  | .sha1 => 24
  | .sha256 => 36

def integrityMac (H : Hashes) (key : Bytes) (algo : Algo) (bytes : Bytes) : Bytes :=
  match algo with
  | .sha1 => H.hmacSha1 key bytes
  | .sha256 => H.hmacSha256 key bytes

theorem addIntegrity_ok (H : Hashes) (b b' : Builder) (c : Creds) (algo : Algo)
    (h : b.addIntegrity H c algo = .ok b') :
    (∀ t ∈ b.types, t ∉ integrityBlockers algo) ∧
    ∃ bytes, b.bytesWithExtraLen (integrityExtra algo) = some bytes ∧
      b' = { b with
        attrs := b.attrs ++ [.raw ⟨integrityTy algo, integrityMac H (hmacKey H c) algo bytes⟩],
        types := b.types ++ [integrityTy algo] } := by
  unfold Builder.addIntegrity at h
  cases algo with
  | sha1 =>
    simp only at h
    cases hh : b.hasAnyAttribute [tyMI, tyMI256, tyFP] with
    | some t =>
      rw [hh] at h
      simp only at h
      split at h
      · cases h
      · split at h <;> cases h
    | none =>
      rw [hh] at h
      simp only at h
      refine ⟨(hasAny_none_iff b _).mp hh, ?_⟩
      cases hb : b.bytesWithExtraLen 24 with
      | none => rw [hb] at h; cases h
      | some bytes =>
        rw [hb] at h
        simp only [Except.ok.injEq] at h
        exact ⟨bytes, hb, h.symm⟩
  | sha256 =>
    simp only at h
    cases hh : b.hasAnyAttribute [tyMI256, tyFP] with
    | some t =>
      rw [hh] at h
      simp only at h
      split at h
      · cases h
      · split at h <;> cases h
    | none =>
      rw [hh] at h
      simp only at h
      refine ⟨(hasAny_none_iff b _).mp hh, ?_⟩
      cases hb : b.bytesWithExtraLen 36 with
      | none => rw [hb] at h; cases h
      | some bytes =>
        rw [hb] at h
        simp only [Except.ok.injEq] at h
        exact ⟨bytes, hb, h.symm⟩

theorem addIntegrity_err_iff (H : Hashes) (b : Builder) (c : Creds) (algo : Algo)
    (hb : b.bytesWithExtraLen (integrityExtra algo) ≠ none) :
    (∃ e, b.addIntegrity H c algo = .error e) ↔ ∃ t ∈ b.types, t ∈ integrityBlockers algo := by
  constructor
  · rintro ⟨e, he⟩
    apply Classical.byContradiction
    intro hn
    have hn' : ∀ t ∈ b.types, t ∉ integrityBlockers algo := by
      intro t ht hc; exact hn ⟨t, ht, hc⟩
    have hh := (hasAny_none_iff b _).mpr hn'
    unfold Builder.addIntegrity at he
    cases algo with
    | sha1 =>
      simp only [integrityBlockers] at hh
      simp only [hh] at he
      cases hb' : b.bytesWithExtraLen 24 with
      | none => exact hb hb'
      | some bytes => rw [hb'] at he; cases he
    | sha256 =>
      simp only [integrityBlockers] at hh
      simp only [hh] at he
      cases hb' : b.bytesWithExtraLen 36 with
      | none => exact hb hb'
      | some bytes => rw [hb'] at he; cases he
  · rintro ⟨t, ht, hc⟩
    cases hr : b.addIntegrity H c algo with
    | error e => exact ⟨e, rfl⟩
    | ok b' => exact absurd hc ((addIntegrity_ok H b b' c algo hr).1 t ht)

/-- the attribute `add_fingerprint` appends -/
def fpAttr (bytes : Bytes) : BAttr := .raw ⟨tyFP, xorBytes (Crc.crc32Bytes bytes) fpXorConst⟩

theorem addFingerprint_ok (b b' : Builder) (h : b.addFingerprint = .ok b') :
    tyFP ∉ b.types ∧
    ∃ bytes, b.bytesWithExtraLen 8 = some bytes ∧
      b' = { b with attrs := b.attrs ++ [fpAttr bytes], types := b.types ++ [tyFP] } := by
  unfold Builder.addFingerprint at h
  split at h
  · cases h
  · rename_i hn
    refine ⟨fun hm => hn ((hasAttribute_iff b tyFP).mpr hm), ?_⟩
    cases hb : b.bytesWithExtraLen 8 with
    | none => rw [hb] at h; cases h
    | some bytes =>
      rw [hb] at h
      simp only [Except.ok.injEq] at h
      exact ⟨bytes, rfl, h.symm⟩

theorem addFingerprint_err_iff (b : Builder) (hb : b.bytesWithExtraLen 8 ≠ none) :
    (∃ e, b.addFingerprint = .error e) ↔ tyFP ∈ b.types := by
  unfold Builder.addFingerprint
  by_cases hm : b.hasAttribute tyFP = true
  · rw [if_pos hm]
    simp [(hasAttribute_iff b tyFP).mp hm]
  · rw [if_neg hm]
    have : tyFP ∉ b.types := fun h => hm ((hasAttribute_iff b tyFP).mpr h)
    cases hb' : b.bytesWithExtraLen 8 with
    | none => exact absurd hb' hb
    | some bytes => simp [this]

/-! ### invariants of reachable builders -/

theorem intoOwned_ty (a : BAttr) : a.intoOwned.ty = a.ty := by
  cases a <;> rfl

theorem reach_types (H : Hashes) (b : Builder) (hr : Reach H b) :
    b.types = b.attrs.map BAttr.ty := by
  induction hr with
  | new ty tid _ _ => rfl
  | add b b' a _ _ hadd ih =>
    obtain ⟨_, rfl⟩ := (add_ok_iff b b' a).mp hadd
    simp [ih]
  | integrity b b' c algo _ hi ih =>
    obtain ⟨_, bytes, _, rfl⟩ := addIntegrity_ok H b b' c algo hi
    simp [ih, BAttr.ty]
  | fingerprint b b' _ hf ih =>
    obtain ⟨_, bytes, _, rfl⟩ := addFingerprint_ok b b' hf
    simp [ih, BAttr.ty, fpAttr]
  | owned b _ ih =>
    simp only [Builder.intoOwned, List.map_map]
    rw [ih]
    apply List.map_congr_left
    intro a _
    exact (intoOwned_ty a).symm

theorem addable_ok {a : BAttr} (h : Addable a) : a.Ok := by
  cases a with
  | typed v => exact h.1
  | raw r => exact h.1

theorem integrityMac_length (H : Hashes) (hH : HashesOk H) (key : Bytes) (algo : Algo)
    (bytes : Bytes) : (integrityMac H key algo bytes).length < 65536 := by
  have := hH key bytes
  cases algo <;> simp only [integrityMac] <;> omega

theorem reach_ok (H : Hashes) (hH : HashesOk H) (b : Builder) (hr : Reach H b) :
    ∀ a ∈ b.attrs, a.Ok := by
  induction hr with
  | new ty tid _ _ => intro a ha; simp [Builder.new] at ha
  | add b b' a _ had hadd ih =>
    obtain ⟨_, rfl⟩ := (add_ok_iff b b' a).mp hadd
    intro x hx
    simp only [List.mem_append, List.mem_singleton] at hx
    rcases hx with hx | rfl
    · exact ih x hx
    · exact addable_ok had
  | integrity b b' c algo _ hi ih =>
    obtain ⟨_, bytes, _, rfl⟩ := addIntegrity_ok H b b' c algo hi
    intro x hx
    simp only [List.mem_append, List.mem_singleton] at hx
    rcases hx with hx | rfl
    · exact ih x hx
    · exact integrityMac_length H hH _ _ _
  | fingerprint b b' _ hf ih =>
    obtain ⟨_, bytes, _, rfl⟩ := addFingerprint_ok b b' hf
    intro x hx
    simp only [List.mem_append, List.mem_singleton] at hx
    rcases hx with hx | rfl
    · exact ih x hx
    · simp only [fpAttr, BAttr.Ok, xorBytes_length, fpXorConst]
      simp only [List.length_cons, List.length_nil]
      omega
  | owned b _ ih => exact (builder_owned b ih).1

/-! ### the length field of the built bytes -/

theorem build_lenField (b : Builder) (hb : ∀ a ∈ b.attrs, a.Ok) :
    beNat ((b.build.drop 2).take 2) = (b.byteLen - 20) % 65536 := by
  rw [builder_build b hb]
  simp only [enc16, cookieBytes, List.cons_append, List.nil_append, List.drop_succ_cons,
    List.drop_zero, List.take_succ_cons, List.take_zero]
  simp [beNat]
  omega

theorem bytesWithExtraLen_some (b : Builder) (hb : ∀ a ∈ b.attrs, a.Ok) (extra : Nat)
    (hs : b.byteLen + extra ≤ 65535 + 20) : b.bytesWithExtraLen extra ≠ none := by
  unfold Builder.bytesWithExtraLen
  simp only [build_lenField b hb]
  have h20 : 20 ≤ b.byteLen := by unfold Builder.byteLen; omega
  rw [if_neg (by omega)]
  simp

/-! ### the shape of the type list -/

def tailShapes : List (List Nat) :=
  [[], [tyMI], [tyMI256], [tyMI, tyMI256], [tyFP], [tyMI, tyFP], [tyMI256, tyFP],
   [tyMI, tyMI256, tyFP]]

def TailShape (types : List Nat) : Prop :=
  ∃ pre tail, types = pre ++ tail ∧ (∀ t ∈ pre, isEnding t = false) ∧ tail ∈ tailShapes

theorem isEnding_iff (t : Nat) : isEnding t = true ↔ t = tyMI ∨ t = tyMI256 ∨ t = tyFP := by
  simp [isEnding, or_assoc]

theorem addable_not_ending {a : BAttr} (h : Addable a) : isEnding a.ty = false := by
  cases a with
  | typed v => exact h.2
  | raw r => exact h.2.2

theorem tail_cases {tail : List Nat} (h : tail ∈ tailShapes) :
    tail = [] ∨ tail = [tyMI] ∨ tail = [tyMI256] ∨ tail = [tyMI, tyMI256] ∨ tail = [tyFP] ∨
    tail = [tyMI, tyFP] ∨ tail = [tyMI256, tyFP] ∨ tail = [tyMI, tyMI256, tyFP] := by
  simpa [tailShapes] using h

theorem tailShape_snoc_plain (types : List Nat) (t : Nat) (hs : TailShape types)
    (hn : ∀ s ∈ types, s ∉ [t, tyMI, tyMI256, tyFP]) (ht : isEnding t = false) :
    TailShape (types ++ [t]) := by
  obtain ⟨pre, tail, rfl, hpre, htail⟩ := hs
  have h1 : tyMI ∉ tail := fun h => hn tyMI (by simp [h]) (by simp)
  have h2 : tyMI256 ∉ tail := fun h => hn tyMI256 (by simp [h]) (by simp)
  have h3 : tyFP ∉ tail := fun h => hn tyFP (by simp [h]) (by simp)
  have : tail = [] := by
    rcases tail_cases htail with h | h | h | h | h | h | h | h <;> subst h <;> simp at h1 h2 h3 ⊢
  subst this
  refine ⟨pre ++ [t], [], by simp, ?_, by simp [tailShapes]⟩
  intro s hs
  simp only [List.mem_append, List.mem_singleton] at hs
  rcases hs with hs | rfl
  · exact hpre s hs
  · exact ht

theorem tailShape_snoc_integrity (types : List Nat) (algo : Algo) (hs : TailShape types)
    (hn : ∀ s ∈ types, s ∉ integrityBlockers algo) :
    TailShape (types ++ [integrityTy algo]) := by
  obtain ⟨pre, tail, rfl, hpre, htail⟩ := hs
  cases algo with
  | sha1 =>
    have h1 : tyMI ∉ tail := fun h => hn tyMI (by simp [h]) (by simp [integrityBlockers])
    have h2 : tyMI256 ∉ tail := fun h => hn tyMI256 (by simp [h]) (by simp [integrityBlockers])
    have h3 : tyFP ∉ tail := fun h => hn tyFP (by simp [h]) (by simp [integrityBlockers])
    have : tail = [] := by
      rcases tail_cases htail with h | h | h | h | h | h | h | h <;> subst h <;>
        simp at h1 h2 h3 ⊢
    subst this
    exact ⟨pre, [tyMI], by simp [integrityTy], hpre, by simp [tailShapes]⟩
  | sha256 =>
    have h2 : tyMI256 ∉ tail := fun h => hn tyMI256 (by simp [h]) (by simp [integrityBlockers])
    have h3 : tyFP ∉ tail := fun h => hn tyFP (by simp [h]) (by simp [integrityBlockers])
    have : tail = [] ∨ tail = [tyMI] := by
      rcases tail_cases htail with h | h | h | h | h | h | h | h <;> subst h <;>
        simp at h2 h3 ⊢
    rcases this with rfl | rfl
    · exact ⟨pre, [tyMI256], by simp [integrityTy], hpre, by simp [tailShapes]⟩
    · exact ⟨pre, [tyMI, tyMI256], by simp [integrityTy], hpre, by simp [tailShapes]⟩

theorem tailShape_snoc_fp (types : List Nat) (hs : TailShape types) (hn : tyFP ∉ types) :
    TailShape (types ++ [tyFP]) := by
  obtain ⟨pre, tail, rfl, hpre, htail⟩ := hs
  have h3 : tyFP ∉ tail := fun h => hn (by simp [h])
  rcases tail_cases htail with h | h | h | h | h | h | h | h <;> subst h
  · exact ⟨pre, [tyFP], by simp, hpre, by simp [tailShapes]⟩
  · exact ⟨pre, [tyMI, tyFP], by simp, hpre, by simp [tailShapes]⟩
  · exact ⟨pre, [tyMI256, tyFP], by simp, hpre, by simp [tailShapes]⟩
  · exact ⟨pre, [tyMI, tyMI256, tyFP], by simp, hpre, by simp [tailShapes]⟩
  all_goals (exfalso; simp at h3)

theorem reach_tailShape (H : Hashes) (b : Builder) (hr : Reach H b) : TailShape b.types := by
  induction hr with
  | new ty tid _ _ => exact ⟨[], [], rfl, by simp, by simp [tailShapes]⟩
  | add b b' a _ had hadd ih =>
    obtain ⟨hg, rfl⟩ := (add_ok_iff b b' a).mp hadd
    exact tailShape_snoc_plain _ _ ih ((addGuard_ok_iff b a.ty).mp hg) (addable_not_ending had)
  | integrity b b' c algo _ hi ih =>
    obtain ⟨hn, bytes, _, rfl⟩ := addIntegrity_ok H b b' c algo hi
    exact tailShape_snoc_integrity _ algo ih hn
  | fingerprint b b' _ hf ih =>
    obtain ⟨hn, bytes, _, rfl⟩ := addFingerprint_ok b b' hf
    exact tailShape_snoc_fp _ ih hn
  | owned b _ ih => exact ih

/-! ### operation sequences -/

theorem applyOp_reach (H : Hashes) (b : Builder) (hr : Reach H b) (op : BOp)
    (ho : opAddable op) : Reach H (applyOp H b op).1 := by
  cases op with
  | add a =>
    simp only [applyOp]
    cases h : b.add a with
    | ok b' => exact Reach.add b b' a hr ho h
    | error e => exact hr
  | integrity c algo =>
    simp only [applyOp]
    cases h : b.addIntegrity H c algo with
    | ok b' => exact Reach.integrity b b' c algo hr h
    | error e => exact hr
  | fingerprint =>
    simp only [applyOp]
    cases h : b.addFingerprint with
    | ok b' => exact Reach.fingerprint b b' hr h
    | error e => exact hr
  | intoOwned => exact Reach.owned b hr
  | clone => exact hr

theorem runOps_reach_of (H : Hashes) (ops : List BOp) : ∀ (b : Builder), Reach H b →
    (∀ op ∈ ops, opAddable op) → Reach H (runOps H b ops) := by
  induction ops with
  | nil => intro b hr _; exact hr
  | cons op ops ih =>
    intro b hr ho
    simp only [runOps, List.foldl_cons]
    exact ih _ (applyOp_reach H b hr op (ho op (by simp))) (fun o h => ho o (by simp [h]))

end StunVerif
