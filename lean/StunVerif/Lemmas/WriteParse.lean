/-
Helper lemmas for Props/C03Write.lean.
-/
import StunVerif.Lemmas.Roundtrip
import StunVerif.Lemmas.Seal
import StunVerif.Lemmas.Write
namespace StunVerif
open Spec

/-- writing a reachable builder into a large enough destination: `build()` followed by the untouched
    tail, and `build()` has the reported length -/
theorem reach_writeInto (H : Hashes) (hH : HashesOk H) (b : Builder) (hr : Reach H b) (dest : Bytes)
    (hd : b.byteLen ≤ dest.length) :
    b.writeInto dest = .ok (b.byteLen, b.build ++ dest.drop b.byteLen) ∧
      b.build.length = b.byteLen := by
  have hok := reach_ok H hH b hr
  refine ⟨?_, builder_build_length b hok⟩
  rw [builder_writeInto b hok dest hd, builder_build b hok]

/-- what the first `n` bytes and the rest of `pre ++ dest.drop n` are, for `pre` of length `n ≤ dest.length` -/
theorem prefix_write_facts (pre dest : Bytes) (n : Nat) (hl : pre.length = n) (hd : n ≤ dest.length) :
    (pre ++ dest.drop n).length = dest.length ∧ (pre ++ dest.drop n).drop n = dest.drop n ∧
      (pre ++ dest.drop n).take n = pre := by
  subst hl
  refine ⟨?_, ?_, ?_⟩
  · rw [List.length_append, List.length_drop]; omega
  · exact List.drop_left
  · exact List.take_left

end StunVerif
