/-
Byte-level helper lemmas: `beNat` / `encBE` round trips, `pad4`, `zeros`.
-/
import StunVerif.Bytes
import StunVerif.Lemmas.Bytes
namespace StunVerif

@[simp] theorem encBE_length (k n : Nat) : (encBE k n).length = k := by
  induction k generalizing n with
  | zero => rfl
  | succ k ih => simp [encBE, ih]

theorem beNat_append_singleton (bs : Bytes) (b : UInt8) :
    beNat (bs ++ [b]) = beNat bs * 256 + b.toNat := by
  simp [beNat, List.foldl_append]

/-- every list is empty or `init ++ [last]` -/
theorem bytes_snoc_cases (v : Bytes) : v = [] ∨ ∃ w b, v = w ++ [b] := by
  rcases List.eq_nil_or_concat v with h | ⟨w, b, h⟩
  · exact Or.inl h
  · exact Or.inr ⟨w, b, by simpa using h⟩

theorem beNat_encBE (k n : Nat) (h : n < 256 ^ k) : beNat (encBE k n) = n := by
  induction k generalizing n with
  | zero => simp [encBE, beNat] at *; omega
  | succ k ih =>
    have h1 : n / 256 < 256 ^ k := by
      rw [Nat.pow_succ] at h
      exact Nat.div_lt_of_lt_mul (by rw [Nat.mul_comm]; exact h)
    simp only [encBE, beNat_append_singleton, ih _ h1, UInt8.toNat_ofNat']
    omega

theorem encBE_beNat (k : Nat) (v : Bytes) (h : v.length = k) : encBE k (beNat v) = v := by
  induction k generalizing v with
  | zero =>
    have : v = [] := List.length_eq_zero_iff.mp h
    subst this; rfl
  | succ k ih =>
    rcases bytes_snoc_cases v with hv | ⟨w, b, hv⟩
    · subst hv; simp at h
    · subst hv
      have hw : w.length = k := by simpa using h
      have hb := u8_lt b
      have h1 : (beNat w * 256 + b.toNat) / 256 = beNat w := by omega
      have h2 : UInt8.ofNat (beNat w * 256 + b.toNat) = b := by
        apply UInt8.toNat_inj.mp; simp
      simp only [encBE, beNat_append_singleton, h1, h2, ih w hw]

theorem beNat_lt_of_length (k : Nat) (v : Bytes) (h : v.length = k) : beNat v < 256 ^ k := by
  induction k generalizing v with
  | zero =>
    have : v = [] := List.length_eq_zero_iff.mp h
    subst this; simp [beNat]
  | succ k ih =>
    rcases bytes_snoc_cases v with hv | ⟨w, b, hv⟩
    · subst hv; simp at h
    · subst hv
      have hw : w.length = k := by simpa using h
      have hb := u8_lt b
      have := ih w hw
      rw [beNat_append_singleton, Nat.pow_succ]
      omega

theorem beNat_lt (v : Bytes) : beNat v < 256 ^ v.length := beNat_lt_of_length _ v rfl

@[simp] theorem zeros_length (n : Nat) : (zeros n).length = n := by simp [zeros]

@[simp] theorem zeros_zero : zeros 0 = [] := rfl

theorem zeros_add (m n : Nat) : zeros (m + n) = zeros m ++ zeros n := by
  simp [zeros, List.replicate_append_replicate]

theorem pad4_lt (n : Nat) : pad4 n < 4 := by unfold pad4; omega

theorem round4_mod (n : Nat) : round4 n % 4 = 0 := by unfold round4 pad4; omega

end StunVerif
