/-
Burst detection of the bit-serial reflected CRC-32 of `Crypto/Crc32.lean`:
flipping a nonzero error pattern confined to a window of at most 32 consecutive bits (in the order
the CRC consumes them: byte by byte, least significant bit of each byte first) changes `crc32`,
whatever the message and its length.

Route: the zero-input step `shift1` is linear over GF(2) and injective (the polynomial has its top
bit set); hence `crc32 (m xor e) = crc32 m xor feed 0 e`; leading zero bits of `e` keep the
zero-initialised register at zero; feeding `n ≤ 32` bits `w` into a zero register leaves
`shift1^n (w packed little-endian)`, which is nonzero when `w` is; trailing zero bits only apply
`shift1` further.  No certificate computation is needed beyond a 256-case check that one byte step
is eight bit steps.
-/
import StunVerif.Crypto.Crc32
import StunVerif.Attr.Typed
import StunVerif.Lemmas.Xor
namespace StunVerif.Crc

/-! ### 1. `shift1` is linear and injective -/

theorem and_one_cases (c : UInt32) : c &&& 1 = 0 ∨ c &&& 1 = 1 := by
  have h : (c &&& 1).toNat = c.toNat % 2 := by
    rw [UInt32.toNat_and]; exact Nat.and_one_is_mod _
  rcases Nat.mod_two_eq_zero_or_one c.toNat with h0 | h1
  · left; apply UInt32.toNat_inj.mp; rw [h, h0]; rfl
  · right; apply UInt32.toNat_inj.mp; rw [h, h1]; rfl

theorem and_one_toNat (c : UInt32) : (c &&& 1).toNat = c.toNat % 2 := by
  rw [UInt32.toNat_and]; exact Nat.and_one_is_mod _

theorem xor_and_one (a b : UInt32) : (a ^^^ b) &&& 1 = (a &&& 1) ^^^ (b &&& 1) := by
  apply UInt32.toNat_inj.mp
  simp only [UInt32.toNat_and, UInt32.toNat_xor]
  exact Nat.and_xor_distrib_right

theorem shift1_of_even {c : UInt32} (h : c &&& 1 = 0) : shift1 c = c >>> 1 := by
  unfold shift1
  rw [h, if_neg (by decide)]

theorem shift1_of_odd {c : UInt32} (h : c &&& 1 = 1) : shift1 c = (c >>> 1) ^^^ poly := by
  unfold shift1
  rw [h, if_pos rfl]

theorem shift1_xor (a b : UInt32) : shift1 (a ^^^ b) = shift1 a ^^^ shift1 b := by
  rcases and_one_cases a with ha | ha <;> rcases and_one_cases b with hb | hb
  · rw [shift1_of_even ha, shift1_of_even hb,
      shift1_of_even (by rw [xor_and_one, ha, hb]; rfl), UInt32.shiftRight_xor]
  · rw [shift1_of_even ha, shift1_of_odd hb,
      shift1_of_odd (by rw [xor_and_one, ha, hb]; rfl), UInt32.shiftRight_xor]
    ac_rfl
  · rw [shift1_of_odd ha, shift1_of_even hb,
      shift1_of_odd (by rw [xor_and_one, ha, hb]; rfl), UInt32.shiftRight_xor]
    ac_rfl
  · rw [shift1_of_odd ha, shift1_of_odd hb,
      shift1_of_even (by rw [xor_and_one, ha, hb]; rfl), UInt32.shiftRight_xor,
      show a >>> 1 ^^^ poly ^^^ (b >>> 1 ^^^ poly) = a >>> 1 ^^^ b >>> 1 ^^^ (poly ^^^ poly) by
        ac_rfl,
      UInt32.xor_self, UInt32.xor_zero]

theorem shift1_zero : shift1 0 = 0 := by decide

theorem shiftRight_one_toNat (c : UInt32) : (c >>> 1).toNat = c.toNat / 2 := by
  simp [UInt32.toNat_shiftRight, Nat.shiftRight_eq_div_pow]

theorem shiftLeft_one_toNat (c : UInt32) : (c <<< 1).toNat = (c.toNat * 2) % 2 ^ 32 := by
  simp [UInt32.toNat_shiftLeft, Nat.shiftLeft_eq]

/-- the zero-input step has trivial kernel: the polynomial's top bit is set -/
theorem shift1_eq_zero {a : UInt32} (h : shift1 a = 0) : a = 0 := by
  have hlt := a.toNat_lt
  rcases and_one_cases a with ha | ha
  · rw [shift1_of_even ha] at h
    have h1 := congrArg UInt32.toNat h
    have h2 := congrArg UInt32.toNat ha
    rw [shiftRight_one_toNat] at h1
    rw [and_one_toNat] at h2
    apply UInt32.toNat_inj.mp
    change a.toNat = 0
    change a.toNat / 2 = 0 at h1
    change a.toNat % 2 = 0 at h2
    omega
  · rw [shift1_of_odd ha, UInt32.xor_eq_zero_iff] at h
    have h1 := congrArg UInt32.toNat h
    rw [shiftRight_one_toNat] at h1
    change a.toNat / 2 = 3988292384 at h1
    omega

theorem shift1_inj {a b : UInt32} (h : shift1 a = shift1 b) : a = b := by
  apply UInt32.xor_eq_zero_iff.mp
  apply shift1_eq_zero
  rw [shift1_xor, h, UInt32.xor_self]

/-- `n` zero-input steps -/
def shiftN : Nat → UInt32 → UInt32
  | 0, c => c
  | n + 1, c => shiftN n (shift1 c)

theorem shiftN_xor : ∀ (n : Nat) (a b : UInt32), shiftN n (a ^^^ b) = shiftN n a ^^^ shiftN n b
  | 0, _, _ => rfl
  | n + 1, a, b => by simp only [shiftN, shift1_xor, shiftN_xor n]

theorem shiftN_zero : ∀ n : Nat, shiftN n 0 = 0
  | 0 => rfl
  | n + 1 => by simp only [shiftN, shift1_zero, shiftN_zero n]

theorem shiftN_eq_zero : ∀ (n : Nat) {a : UInt32}, shiftN n a = 0 → a = 0
  | 0, _, h => h
  | n + 1, _, h => shift1_eq_zero (shiftN_eq_zero n h)

theorem shiftN_add : ∀ (m n : Nat) (c : UInt32), shiftN (m + n) c = shiftN n (shiftN m c)
  | 0, n, c => by simp [shiftN]
  | m + 1, n, c => by
    rw [show m + 1 + n = (m + n) + 1 by omega]
    simp only [shiftN, shiftN_add m n]

theorem shift8_eq (c : UInt32) : shift8 c = shiftN 8 c := rfl

/-! ### 2. the register update is affine: `crc32 (m xor e) = crc32 m xor feed 0 e` -/

theorem shift8_xor (a b : UInt32) : shift8 (a ^^^ b) = shift8 a ^^^ shift8 b := by
  simp only [shift8_eq, shiftN_xor]

theorem step_xor (c d : UInt32) (x y : UInt8) :
    step (c ^^^ d) (x ^^^ y) = step c x ^^^ step d y := by
  unfold step
  rw [UInt8.toUInt32_xor, ← shift8_xor]
  congr 1
  ac_rfl

theorem feed_xor : ∀ (m e : Bytes) (c d : UInt32), e.length = m.length →
    feed (c ^^^ d) (xorBytes m e) = feed c m ^^^ feed d e
  | [], [], _, _, _ => rfl
  | [], _ :: _, _, _, h => by simp at h
  | _ :: _, [], _, _, h => by simp at h
  | a :: m, b :: e, c, d, h => by
    have h' : e.length = m.length := by simpa using h
    simp only [xorBytes, feed, List.foldl_cons]
    rw [step_xor]
    exact feed_xor m e _ _ h'

theorem crc32_xor (m e : Bytes) (h : e.length = m.length) :
    crc32 (xorBytes m e) = crc32 m ^^^ feed 0 e := by
  unfold crc32
  have := feed_xor m e 0xFFFFFFFF 0 h
  rw [UInt32.xor_zero] at this
  rw [this]
  ac_rfl

/-! ### 3. bit-serial view -/

def bit (x : Bool) : UInt32 := if x then 1 else 0

/-- feed one bit -/
def stepBit (c : UInt32) (x : Bool) : UInt32 := shift1 (c ^^^ bit x)

def feedBits (c : UInt32) (xs : List Bool) : UInt32 := xs.foldl stepBit c

/-- the bits of a byte in the order the CRC consumes them: least significant first -/
def bits8 (b : UInt8) : List Bool :=
  [b.toNat.testBit 0, b.toNat.testBit 1, b.toNat.testBit 2, b.toNat.testBit 3,
   b.toNat.testBit 4, b.toNat.testBit 5, b.toNat.testBit 6, b.toNat.testBit 7]

def bitsOf (bs : Bytes) : List Bool := bs.flatMap bits8

theorem feedBits_append (c : UInt32) (xs ys : List Bool) :
    feedBits c (xs ++ ys) = feedBits (feedBits c xs) ys := by
  simp [feedBits, List.foldl_append]

theorem feedBits_affine : ∀ (xs : List Bool) (c : UInt32),
    feedBits c xs = shiftN xs.length c ^^^ feedBits 0 xs
  | [], c => by simp [feedBits, shiftN]
  | x :: xs, c => by
    have e1 : feedBits c (x :: xs) = feedBits (shift1 (c ^^^ bit x)) xs := rfl
    have e2 : feedBits 0 (x :: xs) = feedBits (shift1 (0 ^^^ bit x)) xs := rfl
    rw [e1, e2, feedBits_affine xs (shift1 (c ^^^ bit x)),
      feedBits_affine xs (shift1 (0 ^^^ bit x)), UInt32.zero_xor, shift1_xor, shiftN_xor,
      List.length_cons]
    simp only [shiftN]
    ac_rfl

theorem feedBits_zeros : ∀ (n : Nat), feedBits 0 (List.replicate n false) = 0
  | 0 => rfl
  | n + 1 => by
    have e : feedBits 0 (List.replicate (n + 1) false) =
        feedBits (shift1 (0 ^^^ bit false)) (List.replicate n false) := rfl
    rw [e]
    have : shift1 (0 ^^^ bit false) = 0 := by decide
    rw [this, feedBits_zeros n]

theorem feedBits_trailing_zeros (c : UInt32) (n : Nat) :
    feedBits c (List.replicate n false) = shiftN n c := by
  rw [feedBits_affine, feedBits_zeros, UInt32.xor_zero, List.length_replicate]

/-- one byte step is eight bit steps (checked on the 256 bytes from a zero register, extended to
    every register by linearity) -/
theorem step_zero_bits : ∀ n : Nat, n < 256 →
    feedBits 0 (bits8 (UInt8.ofNat n)) = shift8 (UInt8.ofNat n).toUInt32 := by
  decide +kernel

theorem step_eq_feedBits (c : UInt32) (b : UInt8) : step c b = feedBits c (bits8 b) := by
  have hb : b = UInt8.ofNat b.toNat := by simp
  have h0 := step_zero_bits b.toNat b.toNat_lt
  rw [← hb] at h0
  rw [feedBits_affine, h0]
  unfold step
  rw [shift8_xor]
  rfl

theorem feed_eq_feedBits : ∀ (bs : Bytes) (c : UInt32), feed c bs = feedBits c (bitsOf bs)
  | [], _ => rfl
  | b :: bs, c => by
    have e1 : feed c (b :: bs) = feed (step c b) bs := rfl
    have e2 : bitsOf (b :: bs) = bits8 b ++ bitsOf bs := by simp [bitsOf]
    rw [e1, e2, feedBits_append, ← step_eq_feedBits, feed_eq_feedBits bs]

/-! ### 4. at most 32 bits fed into a zero register -/

/-- the bits packed little-endian: the first bit fed is bit 0 -/
def pack : List Bool → UInt32
  | [] => 0
  | x :: xs => bit x ^^^ (pack xs <<< 1)

theorem bit_toNat_lt (x : Bool) : (bit x).toNat < 2 := by
  cases x <;> decide

theorem pack_lt : ∀ (xs : List Bool), xs.length ≤ 32 → (pack xs).toNat < 2 ^ xs.length
  | [], _ => by decide
  | x :: xs, h => by
    have h' : xs.length ≤ 31 := by simpa using h
    have ih := pack_lt xs (by omega)
    have hp : 2 ^ xs.length ≤ 2 ^ 31 := Nat.pow_le_pow_right (by omega) h'
    simp only [pack, UInt32.toNat_xor, List.length_cons]
    apply Nat.xor_lt_two_pow
    · have := bit_toNat_lt x
      have : 2 ≤ 2 ^ (xs.length + 1) := by
        rw [Nat.pow_succ]; have := Nat.one_le_two_pow (n := xs.length); omega
      omega
    · rw [shiftLeft_one_toNat, Nat.pow_succ]
      omega

/-- shifting left then one zero-input step is the identity below 2^31 -/
theorem shift1_shiftLeft {p : UInt32} (h : p.toNat < 2 ^ 31) : shift1 (p <<< 1) = p := by
  have he : (p <<< 1) &&& 1 = 0 := by
    apply UInt32.toNat_inj.mp
    rw [and_one_toNat, shiftLeft_one_toNat]
    change p.toNat * 2 % 2 ^ 32 % 2 = 0
    omega
  rw [shift1_of_even he]
  apply UInt32.toNat_inj.mp
  rw [shiftRight_one_toNat, shiftLeft_one_toNat]
  omega

theorem feedBits_pack : ∀ (xs : List Bool), xs.length ≤ 32 →
    feedBits 0 xs = shiftN xs.length (pack xs)
  | [], _ => rfl
  | x :: xs, h => by
    have h' : xs.length ≤ 31 := by simpa using h
    have hlt := pack_lt xs (by omega)
    have hp : 2 ^ xs.length ≤ 2 ^ 31 := Nat.pow_le_pow_right (by omega) h'
    have e : feedBits 0 (x :: xs) = feedBits (shift1 (0 ^^^ bit x)) xs := rfl
    rw [e, feedBits_affine, feedBits_pack xs (by omega), UInt32.zero_xor, List.length_cons]
    simp only [shiftN, pack]
    rw [shift1_xor, shift1_shiftLeft (by omega), shiftN_xor]

theorem pack_ne_zero : ∀ (xs : List Bool), xs.length ≤ 32 → true ∈ xs → pack xs ≠ 0
  | [], _, h => by simp at h
  | x :: xs, h, hm => by
    have h' : xs.length ≤ 31 := by simpa using h
    have hlt := pack_lt xs (by omega)
    have hp : 2 ^ xs.length ≤ 2 ^ 31 := Nat.pow_le_pow_right (by omega) h'
    intro hz
    cases x with
    | true =>
      simp only [pack] at hz
      have hz' := congrArg UInt32.toNat (UInt32.xor_eq_zero_iff.mp hz)
      rw [shiftLeft_one_toNat] at hz'
      change 1 = (pack xs).toNat * 2 % 2 ^ 32 at hz'
      omega
    | false =>
      have hm' : true ∈ xs := by simpa using hm
      have ih := pack_ne_zero xs (by omega) hm'
      apply ih
      simp only [pack] at hz
      have hz' := congrArg UInt32.toNat hz
      rw [UInt32.toNat_xor, shiftLeft_one_toNat] at hz'
      apply UInt32.toNat_inj.mp
      change (0 ^^^ (pack xs).toNat * 2 % 2 ^ 32) = 0 at hz'
      rw [Nat.zero_xor] at hz'
      change (pack xs).toNat = 0
      omega

/-- a nonzero burst of at most 32 bits, preceded and followed by any number of zero bits, leaves a
    nonzero register when fed into the zero register -/
theorem feedBits_burst (s r : Nat) (w : List Bool) (hw : w.length ≤ 32) (hne : true ∈ w) :
    feedBits 0 (List.replicate s false ++ w ++ List.replicate r false) ≠ 0 := by
  rw [feedBits_append, feedBits_append, feedBits_zeros, feedBits_trailing_zeros,
    feedBits_pack w hw]
  intro h
  exact pack_ne_zero w hw hne (shiftN_eq_zero _ (shiftN_eq_zero _ h))

/-! ### 5. bit positions of a byte string -/

/-- bit `i` of a byte string in CRC feed order: bit `i % 8` (0 = least significant) of byte `i / 8`;
    `false` beyond the end -/
def bitAt (bs : Bytes) (i : Nat) : Bool := (bs.getD (i / 8) 0).toNat.testBit (i % 8)

theorem bits8_length (b : UInt8) : (bits8 b).length = 8 := rfl

theorem bitsOf_length : ∀ (bs : Bytes), (bitsOf bs).length = 8 * bs.length
  | [] => rfl
  | b :: bs => by
    have e2 : bitsOf (b :: bs) = bits8 b ++ bitsOf bs := by simp [bitsOf]
    rw [e2, List.length_append, bits8_length, bitsOf_length bs, List.length_cons]
    omega

theorem bits8_getD (b : UInt8) (i : Nat) (h : i < 8) :
    (bits8 b)[i]?.getD false = b.toNat.testBit i := by
  match i, h with
  | 0, _ | 1, _ | 2, _ | 3, _ | 4, _ | 5, _ | 6, _ | 7, _ => rfl

theorem bitAt_cons_lt (b : UInt8) (bs : Bytes) (i : Nat) (h : i < 8) :
    bitAt (b :: bs) i = b.toNat.testBit i := by
  unfold bitAt
  rw [Nat.div_eq_of_lt h, Nat.mod_eq_of_lt h]
  rfl

theorem bitAt_cons_add (b : UInt8) (bs : Bytes) (i : Nat) :
    bitAt (b :: bs) (i + 8) = bitAt bs i := by
  unfold bitAt
  rw [Nat.add_div_right _ (by omega), Nat.add_mod_right]
  rfl

theorem bitsOf_getD : ∀ (bs : Bytes) (i : Nat), (bitsOf bs)[i]?.getD false = bitAt bs i
  | [], i => by simp [bitsOf, bitAt]
  | b :: bs, i => by
    have e2 : bitsOf (b :: bs) = bits8 b ++ bitsOf bs := by simp [bitsOf]
    rw [e2]
    by_cases h : i < 8
    · rw [List.getElem?_append_left (by rw [bits8_length]; exact h), bits8_getD b i h,
        bitAt_cons_lt b bs i h]
    · rw [List.getElem?_append_right (by rw [bits8_length]; omega), bits8_length,
        bitsOf_getD bs (i - 8)]
      have : i = (i - 8) + 8 := by omega
      rw [this, bitAt_cons_add]
      simp

theorem all_false_eq_replicate (l : List Bool) (h : ∀ i : Nat, l[i]?.getD false = false) :
    l = List.replicate l.length false := by
  rw [List.eq_replicate_iff]
  refine ⟨rfl, ?_⟩
  intro b hb
  obtain ⟨i, hi, rfl⟩ := List.mem_iff_getElem.mp hb
  have := h i
  rwa [List.getElem?_eq_getElem hi] at this

/-- a bit string whose set bits lie in `[s, s+32)` is zeros, at most 32 bits, zeros -/
theorem window_split (B : List Bool) (s : Nat)
    (hwin : ∀ i, B[i]?.getD false = true → s ≤ i ∧ i < s + 32) :
    B = List.replicate (B.take s).length false ++ (B.drop s).take 32 ++
      List.replicate (B.drop (s + 32)).length false := by
  have h1 : B.take s = List.replicate (B.take s).length false := by
    apply all_false_eq_replicate
    intro i
    by_cases hi : i < s
    · rw [List.getElem?_take_of_lt hi]
      cases hb : B[i]?.getD false with
      | false => rfl
      | true => have := hwin i hb; omega
    · rw [List.getElem?_eq_none (by rw [List.length_take]; omega)]; rfl
  have h3 : B.drop (s + 32) = List.replicate (B.drop (s + 32)).length false := by
    apply all_false_eq_replicate
    intro i
    rw [List.getElem?_drop]
    cases hb : B[s + 32 + i]?.getD false with
    | false => rfl
    | true => have := hwin _ hb; omega
  rw [← h1, ← h3, List.append_assoc, ← List.drop_drop, List.take_append_drop,
    List.take_append_drop]

/-! ### 6. the burst lemma -/

/-- a nonzero error pattern confined to a window of at most 32 consecutive bits (feed order)
    leaves a nonzero zero-initialised register -/
theorem feed_zero_burst (e : Bytes) (s : Nat)
    (hwin : ∀ i, bitAt e i = true → s ≤ i ∧ i < s + 32) (hne : ∃ i, bitAt e i = true) :
    feed 0 e ≠ 0 := by
  rw [feed_eq_feedBits]
  have hwin' : ∀ i, (bitsOf e)[i]?.getD false = true → s ≤ i ∧ i < s + 32 := by
    intro i hi; rw [bitsOf_getD] at hi; exact hwin i hi
  rw [window_split (bitsOf e) s hwin']
  apply feedBits_burst
  · rw [List.length_take]; omega
  · obtain ⟨i, hi⟩ := hne
    obtain ⟨h1, h2⟩ := hwin i hi
    rw [← bitsOf_getD] at hi
    have : (((bitsOf e).drop s).take 32)[i - s]?.getD false = true := by
      rw [List.getElem?_take_of_lt (by omega), List.getElem?_drop,
        show s + (i - s) = i by omega]
      exact hi
    cases hq : (((bitsOf e).drop s).take 32)[i - s]? with
    | none => rw [hq] at this; cases this
    | some b =>
      rw [hq] at this
      have hb : b = true := this
      subst hb
      exact List.mem_of_getElem? hq

/-- **CRC-32 burst detection.**  XORing into a message `m` (of any length) an error pattern `e`
    of the same length that is nonzero and whose set bits all lie in a window of 32 consecutive
    bit positions (in the order the CRC consumes the bits) changes the CRC. -/
theorem crc32_burst (m e : Bytes) (hlen : e.length = m.length) (s : Nat)
    (hwin : ∀ i, bitAt e i = true → s ≤ i ∧ i < s + 32) (hne : ∃ i, bitAt e i = true) :
    crc32 (xorBytes m e) ≠ crc32 m := by
  rw [crc32_xor m e hlen]
  intro h
  apply feed_zero_burst e s hwin hne
  have : crc32 m ^^^ feed 0 e = crc32 m ^^^ 0 := by rw [h, UInt32.xor_zero]
  exact (UInt32.xor_right_inj _).mp this

/-! ### 7. the same for two messages -/

theorem xorBytes_self_cancel : ∀ (m m' : Bytes), m.length = m'.length →
    xorBytes m (xorBytes m m') = m'
  | [], [], _ => rfl
  | [], _ :: _, h => by simp at h
  | _ :: _, [], h => by simp at h
  | a :: m, b :: m', h => by
    have h' : m.length = m'.length := by simpa using h
    simp only [xorBytes]
    rw [xorBytes_self_cancel m m' h', ← UInt8.xor_assoc, UInt8.xor_self, UInt8.zero_xor]

theorem xorBytes_length_eq : ∀ (m m' : Bytes), m.length = m'.length →
    (xorBytes m m').length = m.length
  | [], [], _ => rfl
  | [], _ :: _, h => by simp at h
  | _ :: _, [], h => by simp at h
  | a :: m, b :: m', h => by
    have h' : m.length = m'.length := by simpa using h
    simp only [xorBytes, List.length_cons, xorBytes_length_eq m m' h']

theorem bitAt_nil (i : Nat) : bitAt [] i = false := by
  simp [bitAt]

theorem bitAt_xorBytes : ∀ (m m' : Bytes), m.length = m'.length → ∀ i,
    bitAt (xorBytes m m') i = (bitAt m i ^^ bitAt m' i)
  | [], [], _, i => by simp [xorBytes, bitAt_nil]
  | [], _ :: _, h, _ => by simp at h
  | _ :: _, [], h, _ => by simp at h
  | a :: m, b :: m', h, i => by
    have h' : m.length = m'.length := by simpa using h
    simp only [xorBytes]
    by_cases hi : i < 8
    · rw [bitAt_cons_lt _ _ _ hi, bitAt_cons_lt _ _ _ hi, bitAt_cons_lt _ _ _ hi,
        UInt8.toNat_xor, Nat.testBit_xor]
    · have : i = (i - 8) + 8 := by omega
      rw [this, bitAt_cons_add, bitAt_cons_add, bitAt_cons_add, bitAt_xorBytes m m' h']

theorem bytes_ext_bitAt : ∀ (m m' : Bytes), m.length = m'.length →
    (∀ i, bitAt m i = bitAt m' i) → m = m'
  | [], [], _, _ => rfl
  | [], _ :: _, h, _ => by simp at h
  | _ :: _, [], h, _ => by simp at h
  | a :: m, b :: m', h, hb => by
    have h' : m.length = m'.length := by simpa using h
    have hab : a = b := by
      apply UInt8.toNat_inj.mp
      apply Nat.eq_of_testBit_eq
      intro i
      by_cases hi : i < 8
      · have := hb i
        rwa [bitAt_cons_lt _ _ _ hi, bitAt_cons_lt _ _ _ hi] at this
      · have h8 : 2 ^ 8 ≤ 2 ^ i := Nat.pow_le_pow_right (by omega) (by omega)
        rw [Nat.testBit_lt_two_pow (Nat.lt_of_lt_of_le a.toNat_lt h8),
          Nat.testBit_lt_two_pow (Nat.lt_of_lt_of_le b.toNat_lt h8)]
    have hmm : m = m' := by
      apply bytes_ext_bitAt m m' h'
      intro i
      have := hb (i + 8)
      rwa [bitAt_cons_add, bitAt_cons_add] at this
    rw [hab, hmm]

/-- **CRC-32 burst detection, two-message form.**  Two different messages of the same (arbitrary)
    length whose differing bits all lie in a window of 32 consecutive bit positions (feed order:
    byte by byte, least significant bit first) have different CRCs. -/
theorem crc32_burst_pair (m m' : Bytes) (hlen : m.length = m'.length) (s : Nat)
    (hwin : ∀ i, bitAt m i ≠ bitAt m' i → s ≤ i ∧ i < s + 32) (hne : m ≠ m') :
    crc32 m ≠ crc32 m' := by
  have hel : (xorBytes m m').length = m.length := xorBytes_length_eq m m' hlen
  have h := crc32_burst m (xorBytes m m') hel s
    (by
      intro i hi
      rw [bitAt_xorBytes m m' hlen] at hi
      apply hwin i
      intro he
      rw [he] at hi
      simp at hi)
    (by
      apply Classical.byContradiction
      intro hn
      apply hne
      apply bytes_ext_bitAt m m' hlen
      intro i
      cases h1 : bitAt m i <;> cases h2 : bitAt m' i <;> try rfl
      all_goals
        exfalso
        apply hn
        exact ⟨i, by rw [bitAt_xorBytes m m' hlen, h1, h2]; rfl⟩)
  rw [xorBytes_self_cancel m m' hlen] at h
  exact fun he => h he.symm

/-- the same for the four-byte form `Fingerprint::compute` returns -/
theorem crc32Bytes_burst_pair (m m' : Bytes) (hlen : m.length = m'.length) (s : Nat)
    (hwin : ∀ i, bitAt m i ≠ bitAt m' i → s ≤ i ∧ i < s + 32) (hne : m ≠ m') :
    crc32Bytes m ≠ crc32Bytes m' := by
  intro h
  apply crc32_burst_pair m m' hlen s hwin hne
  apply UInt32.toNat_inj.mp
  exact encBE_inj 4 _ _ (crc32 m).toNat_lt (crc32 m').toNat_lt h

end StunVerif.Crc
