/-
Helper lemmas for C16: the policing function against its specification, the attribute lists of the
two error responses, and the bound on the number of attributes an accepted message exposes.
-/
import StunVerif.Spec.Police
import StunVerif.Spec.Builder
import StunVerif.Lemmas.Builder
namespace StunVerif
open Spec

/-! ### the verdict -/

theorem unsupported_filter_eq (types sup : List Nat) :
    (types.filter fun t => comprehensionRequired t && !sup.contains t) =
      types.filter fun t => decide (t < 0x8000 ∧ t ∉ sup) := by
  apply List.filter_congr
  intro t _
  simp [comprehensionRequired]

theorem required_any_iff (types req : List Nat) :
    (req.any fun t => !types.contains t) = true ↔ ∃ r ∈ req, r ∉ types := by
  simp

theorem police_unfold (types sup req : List Nat) :
    Spec.police types sup req =
      if (types.filter fun t => decide (t < 0x8000 ∧ t ∉ sup)) ≠ [] then
        .unknown420 (types.filter fun t => decide (t < 0x8000 ∧ t ∉ sup))
      else if ∃ r ∈ req, r ∉ types then .bad400 else .pass := rfl

theorem checkAttributeTypes_eq (m : Msg) (sup req : List Nat) :
    checkAttributeTypes m sup req =
      match Spec.police (m.iter.map (·.ty)) sup req with
      | .unknown420 u => some (unknownAttributesResp m u)
      | .bad400 => some (badRequestResp m)
      | .pass => none := by
  rw [police_unfold]
  unfold checkAttributeTypes
  simp only [unsupported_filter_eq]
  generalize (List.filter (fun t => decide (t < 0x8000 ∧ t ∉ sup)) (m.iter.map (·.ty))) = u
  cases u with
  | nil =>
    simp only [List.isEmpty_nil, Bool.not_true, Bool.false_eq_true, if_false, ne_eq,
      not_true_eq_false]
    by_cases hr : ∃ r ∈ req, r ∉ (m.iter.map (·.ty))
    · rw [if_pos ((required_any_iff _ _).mpr hr), if_pos hr]
    · rw [if_neg (fun h => hr ((required_any_iff _ _).mp h)), if_neg hr]
  | cons x xs => simp

theorem police_unknown (types sup req u : List Nat)
    (h : Spec.police types sup req = .unknown420 u) :
    u ≠ [] ∧ u = types.filter fun t => decide (t < 0x8000 ∧ t ∉ sup) := by
  rw [police_unfold] at h
  split at h
  · rename_i hne
    injection h with h
    subst h
    exact ⟨hne, rfl⟩
  · split at h <;> cases h

/-! ### how many attributes a message exposes -/

theorem rawFromBytes_ok_length {data : Bytes} {a : RawAttr} (h : rawFromBytes data = .ok a) :
    4 ≤ data.length := by
  unfold rawFromBytes at h
  split at h
  · simp only [List.length_cons]; omega
  · cases h

theorem iterGo_length (fuel : Nat) : ∀ (data : Bytes) (seen lastMI : Bool),
    4 * (iterGo fuel data seen lastMI).length ≤ data.length := by
  induction fuel with
  | zero => intro data seen lastMI; simp [iterGo]
  | succ fuel ih =>
    intro data seen lastMI
    unfold iterGo
    split
    · simp
    · cases hr : rawFromBytes data with
      | error e => simp
      | ok a =>
        simp only
        have h4 := rawFromBytes_ok_length hr
        have hp := paddedLen_ge a
        have key : ∀ s l, 4 * (iterGo fuel (data.drop a.paddedLen) s l).length + 4 ≤ data.length := by
          intro s l
          have := ih (data.drop a.paddedLen) s l
          rw [List.length_drop] at this
          by_cases hle : a.paddedLen ≤ data.length
          · omega
          · have : (iterGo fuel (data.drop a.paddedLen) s l).length = 0 := by omega
            omega
        split
        · split
          · have := key true false; simp only [List.length_cons]; omega
          · split
            · have := key true false; simp only [List.length_cons]; omega
            · have := key true false; omega
        · have := key (decide (a.ty = tyMI) || decide (a.ty = tyMI256)) (decide (a.ty = tyMI))
          simp only [List.length_cons]; omega

theorem accepted_length {b : Bytes} {m : Msg} (hp : msgFromBytes b = .ok m) :
    m.data = b ∧ 20 ≤ b.length ∧ b.length ≤ 65535 + 20 := by
  obtain ⟨hm, h20, _, _, hl, _⟩ := (msgFromBytes_ok_iff b m).mp hp
  have := beNat_take2_lt (b.drop 2)
  refine ⟨by rw [hm], h20, by omega⟩

theorem iter_length_lt {b : Bytes} {m : Msg} (hp : msgFromBytes b = .ok m) :
    m.iter.length < 16384 := by
  obtain ⟨hm, h20, hl⟩ := accepted_length hp
  have := iterGo_length m.data.length (m.data.drop 20) false false
  rw [List.length_drop, hm] at this
  unfold Msg.iter
  rw [hm]
  omega

/-! ### the response builders -/

theorem addOrSame_fresh (b : Builder) (a : BAttr)
    (h : ∀ t ∈ b.types, t ∉ [a.ty, tyMI, tyMI256, tyFP]) :
    addOrSame b a = { b with attrs := b.attrs ++ [a], types := b.types ++ [a.ty] } := by
  unfold addOrSame Builder.add
  rw [(addGuard_ok_iff b a.ty).mpr h]

def softwareAttr : BAttr := .typed (.software (asciiBytes "stun-types"))
def errorAttr (code : Nat) (reason : String) : BAttr := .typed (.errorCode code (asciiBytes reason))

theorem errorResp_two (src : Msg) (code : Nat) (reason : String) :
    addOrSame (addOrSame (errorBuilder src) softwareAttr) (errorAttr code reason) =
      ⟨Spec.interleave 3 src.method, src.tid, [softwareAttr, errorAttr code reason],
        [0x8022, 0x0009]⟩ := by
  rw [addOrSame_fresh (errorBuilder src) softwareAttr (by simp [errorBuilder, Builder.new])]
  rw [addOrSame_fresh _ _ (by
    simp [errorBuilder, Builder.new, softwareAttr, errorAttr, BAttr.ty, AttrVal.kind, Kind.code,
      tyMI, tyMI256, tyFP])]
  rfl

theorem badRequestResp_eq (src : Msg) :
    badRequestResp src =
      ⟨Spec.interleave 3 src.method, src.tid,
        [.raw ⟨0x8022, asciiBytes "stun-types"⟩,
         .raw ⟨0x0009, (AttrVal.errorCode 400 (asciiBytes "Bad Request")).valueBytes⟩],
        [0x8022, 0x0009]⟩ := by
  unfold badRequestResp
  simp only []
  have := errorResp_two src 400 "Bad Request"
  simp only [softwareAttr, errorAttr] at this
  rw [this]
  rfl

theorem unknownAttributesResp_nil (src : Msg) :
    unknownAttributesResp src [] =
      ⟨Spec.interleave 3 src.method, src.tid,
        [.raw ⟨0x8022, asciiBytes "stun-types"⟩,
         .raw ⟨0x0009, (AttrVal.errorCode 420 (asciiBytes "Unknown Attributes")).valueBytes⟩],
        [0x8022, 0x0009]⟩ := by
  unfold unknownAttributesResp
  simp only []
  have := errorResp_two src 420 "Unknown Attributes"
  simp only [softwareAttr, errorAttr] at this
  rw [this]
  rfl

theorem unknownAttributesResp_cons (src : Msg) (u : List Nat) (hu : u ≠ []) :
    unknownAttributesResp src u =
      ⟨Spec.interleave 3 src.method, src.tid,
        [.raw ⟨0x8022, asciiBytes "stun-types"⟩,
         .raw ⟨0x0009, (AttrVal.errorCode 420 (asciiBytes "Unknown Attributes")).valueBytes⟩,
         .raw ⟨0x000A, u.flatMap enc16⟩],
        [0x8022, 0x0009, 0x000A]⟩ := by
  unfold unknownAttributesResp
  simp only []
  have := errorResp_two src 420 "Unknown Attributes"
  simp only [softwareAttr, errorAttr] at this
  rw [this]
  have he : (!u.isEmpty) = true := by
    cases u with
    | nil => exact absurd rfl hu
    | cons x xs => rfl
  rw [if_pos he]
  rw [addOrSame_fresh _ _ (by
    simp [BAttr.ty, AttrVal.kind, Kind.code, tyMI, tyMI256, tyFP])]
  rfl

end StunVerif
