import StunVerif.Attr.Typed
namespace StunVerif
end StunVerif
