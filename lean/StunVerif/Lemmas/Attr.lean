import StunVerif.Attr.Typed
import StunVerif.Spec.Attr
import StunVerif.Lemmas.BE
namespace StunVerif

/-! ### `Except` plumbing -/

@[simp] theorem exc_bind_ok {ε α β} (a : α) (f : α → Except ε β) :
    (Except.ok a >>= f) = f a := rfl
@[simp] theorem exc_bind_err {ε α β} (e : ε) (f : α → Except ε β) :
    ((Except.error e : Except ε α) >>= f) = .error e := rfl

/-! ### small byte facts -/

theorem and7_toNat (b : UInt8) : (b &&& 7).toNat = b.toNat % 8 := by
  rw [UInt8.toNat_and]
  exact Nat.and_two_pow_sub_one_eq_mod b.toNat 3

theorem u8_eq_iff (a : UInt8) (n : Nat) (hn : n < 256) : a = UInt8.ofNat n ↔ a.toNat = n := by
  constructor
  · intro h; subst h; simp; omega
  · intro h; apply UInt8.toNat_inj.mp; simp; omega

theorem be16_eq_zero {a b : UInt8} : be16 a b = 0 ↔ a = 0 ∧ b = 0 := by
  constructor
  · intro h
    have : be16 a b = be16 0 0 := by simpa [be16] using h
    exact be16_inj this
  · rintro ⟨rfl, rfl⟩; rfl

theorem xor_cancel (a b : UInt8) : (a ^^^ b) ^^^ b = a := by
  rw [UInt8.xor_assoc, UInt8.xor_self, UInt8.xor_zero]

theorem xorBytes_length (v c : Bytes) : (xorBytes v c).length = min v.length c.length := by
  induction v generalizing c with
  | nil => simp [xorBytes]
  | cons a as ih =>
    cases c with
    | nil => simp [xorBytes]
    | cons b bs => simp [xorBytes, ih]

theorem xorBytes_invol (v c : Bytes) (h : v.length ≤ c.length) : xorBytes (xorBytes v c) c = v := by
  induction v generalizing c with
  | nil => cases c <;> simp [xorBytes]
  | cons a as ih =>
    cases c with
    | nil => simp at h
    | cons b bs =>
      simp only [xorBytes, xor_cancel]
      rw [ih bs (by simpa using h)]

theorem u16List_eq (v : Bytes) : u16List v = Spec.u16s v := by
  fun_induction u16List v with
  | case1 a b rest ih => simp [Spec.u16s, be16, ih]
  | case2 v h =>
    unfold Spec.u16s
    split
    · exact absurd rfl (h _ _ _)
    · rfl

theorem u16List_length (v : Bytes) : (u16List v).length = v.length / 2 := by
  fun_induction u16List v with
  | case1 a b rest ih => simp [ih]; omega
  | case2 v h =>
    match v, h with
    | [], _ => rfl
    | [_], _ => simp
    | a :: b :: r, h => exact absurd rfl (h a b r)

/-! ### sub-decoders -/

/-- a non-fault error -/
def NF {α} (r : Except PErr α) : Prop := ∃ e, r = .error e ∧ e.isFault = false

theorem addrFromValue_char (v : Bytes) :
    (Spec.addrOk v = true ∧ addrFromValue v = .ok (Spec.addrFields v)) ∨
    (Spec.addrOk v = false ∧ NF (addrFromValue v)) := by
  unfold NF
  match v with
  | [] | [_] | [_, _] | [_, _, _] => simp [Spec.addrOk, addrFromValue, PErr.isFault]
  | x :: fam :: p0 :: p1 :: rest =>
    simp only [addrFromValue]
    by_cases h1 : fam = 1
    · subst h1
      by_cases hl : rest.length = 4
      · left
        have ht : rest.take 4 = rest := List.take_of_length_le (by omega)
        simp [Spec.addrOk, Spec.byteAt, checkLen, hl, Spec.addrFields, be16, ht]
      · right
        simp [Spec.addrOk, Spec.byteAt, checkLen, hl]
        split
        · simp [PErr.isFault]
        · split
          · simp [PErr.isFault]
          · omega
    · by_cases h2 : fam = 2
      · subst h2
        by_cases hl : rest.length = 16
        · left
          simp [Spec.addrOk, Spec.byteAt, checkLen, hl, Spec.addrFields, be16]
        · right
          simp [Spec.addrOk, Spec.byteAt, checkLen, hl]
          split
          · simp [PErr.isFault]
          · split
            · simp [PErr.isFault]
            · omega
      · right
        have h1' : fam.toNat ≠ 1 := fun h => h1 (UInt8.toNat_inj.mp h)
        have h2' : fam.toNat ≠ 2 := fun h => h2 (UInt8.toNat_inj.mp h)
        simp [Spec.addrOk, Spec.byteAt, h1, h2, h1', h2', PErr.isFault]


theorem algoEntryOk4 (a b c d : UInt8) :
    Spec.algoEntryOk [a, b, c, d] = true ↔ (be16 a b = 1 ∨ be16 a b = 2) ∧ c = 0 ∧ d = 0 := by
  have hc : c.toNat = 0 ↔ c = 0 := by
    constructor
    · intro h; exact UInt8.toNat_inj.mp h
    · rintro rfl; rfl
  have hd : d.toNat = 0 ↔ d = 0 := by
    constructor
    · intro h; exact UInt8.toNat_inj.mp h
    · rintro rfl; rfl
  simp [Spec.algoEntryOk, Spec.byteAt, be16, hc, hd, and_assoc]

theorem pwAlgoRead_char (a b c d : UInt8) (rest : Bytes) :
    (Spec.algoEntryOk [a, b, c, d] = true ∧ pwAlgoRead (a :: b :: c :: d :: rest) = .ok (be16 a b)) ∨
    (Spec.algoEntryOk [a, b, c, d] = false ∧ NF (pwAlgoRead (a :: b :: c :: d :: rest))) := by
  unfold NF
  by_cases h : Spec.algoEntryOk [a, b, c, d] = true
  · left
    refine ⟨h, ?_⟩
    obtain ⟨h1, rfl, rfl⟩ := (algoEntryOk4 a b c d).mp h
    rcases h1 with h1 | h1 <;> simp [pwAlgoRead, h1, be16_eq_zero]
  · right
    refine ⟨by simpa using h, ?_⟩
    rw [algoEntryOk4] at h
    simp only [pwAlgoRead]
    split
    · simp [PErr.isFault]
    · rename_i h0
      have h0' : be16 c d = 0 := by simpa using h0
      rw [be16_eq_zero] at h0'
      split
      · exact absurd ⟨Or.inl ‹_›, h0'⟩ h
      · split
        · exact absurd ⟨Or.inr ‹_›, h0'⟩ h
        · simp [PErr.isFault]

theorem chunks4_cons (a b c d : UInt8) (rest : Bytes) :
    Spec.chunks4 (a :: b :: c :: d :: rest) = [a, b, c, d] :: Spec.chunks4 rest := by
  simp [Spec.chunks4]

theorem pwAlgosLoop_char (fuel : Nat) (v : Bytes) (h4 : v.length % 4 = 0) (hf : v.length ≤ 4 * fuel) :
    ((Spec.chunks4 v).all Spec.algoEntryOk = true ∧
      pwAlgosLoop fuel v = .ok ((Spec.chunks4 v).map fun e => Spec.byteAt e 0 * 256 + Spec.byteAt e 1)) ∨
    ((Spec.chunks4 v).all Spec.algoEntryOk = false ∧ NF (pwAlgosLoop fuel v)) := by
  induction fuel generalizing v with
  | zero =>
    have : v = [] := List.length_eq_zero_iff.mp (by omega)
    subst this
    left; simp [Spec.chunks4, pwAlgosLoop]
  | succ fuel ih =>
    match v, h4, hf with
    | [], _, _ => left; simp [Spec.chunks4, pwAlgosLoop]
    | [_], h4, _ => simp at h4
    | [_, _], h4, _ => simp at h4
    | [_, _, _], h4, _ => simp at h4
    | a :: b :: c :: d :: rest, h4, hf =>
      have h4' : rest.length % 4 = 0 := by simp at h4; omega
      have hf' : rest.length ≤ 4 * fuel := by simp at hf; omega
      rw [chunks4_cons]
      simp only [pwAlgosLoop, List.drop_succ_cons, List.drop_zero, List.all_cons, List.map_cons]
      rcases pwAlgoRead_char a b c d rest with ⟨e1, e2⟩ | ⟨e1, e, e2, e3⟩
      · rcases ih rest h4' hf' with ⟨r1, r2⟩ | ⟨r1, e, r2, r3⟩
        · left; simp [e1, e2, r1, r2, Spec.byteAt, be16]
        · right; exact ⟨by simp [r1], e, by simp [e2, r2], r3⟩
      · right; exact ⟨by simp [e1], e, by simp [e2], e3⟩

/-! ### characterisation of every decoder -/

set_option linter.unusedSimpArgs false

/-- the three possible outcomes of a decoder, in terms of the RFC table -/
def DecChar (k : Kind) (raw : RawAttr) : Prop :=
    (raw.ty ≠ Spec.code k ∧ fromRaw k raw = .error .wrongImpl) ∨
    (raw.ty = Spec.code k ∧ Spec.accept k raw.value = true ∧
      fromRaw k raw = .ok (Spec.fields k raw.value)) ∨
    (raw.ty = Spec.code k ∧ Spec.accept k raw.value = false ∧ NF (fromRaw k raw))

/-- the simple kinds: type check, length range, optional UTF-8 / multiple-of-4 check -/
macro "dec_simple" raw:ident k:term : tactic => `(tactic| (
  unfold DecChar NF
  by_cases hty : RawAttr.ty $raw = Spec.code $k
  · simp only [Spec.code] at hty
    simp [hty, fromRaw, Spec.code, Kind.code, RawAttr.checkTypeAndLen, checkLen, Spec.accept,
      Spec.fields, textOf, u16List_eq, fpXorConst]
    repeat' split
    all_goals simp [*, PErr.isFault]
    all_goals (try simp only [← List.length_eq_zero_iff])
    all_goals omega
  · simp only [Spec.code] at hty
    simp [hty, fromRaw, Spec.code, Kind.code, RawAttr.checkTypeAndLen]))

theorem dec_username (raw : RawAttr) : DecChar .username raw := by dec_simple raw .username
theorem dec_mi (raw : RawAttr) : DecChar .messageIntegrity raw := by dec_simple raw .messageIntegrity
theorem dec_realm (raw : RawAttr) : DecChar .realm raw := by dec_simple raw .realm
theorem dec_nonce (raw : RawAttr) : DecChar .nonce raw := by dec_simple raw .nonce
theorem dec_software (raw : RawAttr) : DecChar .software raw := by dec_simple raw .software
theorem dec_altdom (raw : RawAttr) : DecChar .alternateDomain raw := by dec_simple raw .alternateDomain
theorem dec_mi256 (raw : RawAttr) : DecChar .messageIntegritySha256 raw := by dec_simple raw .messageIntegritySha256
theorem dec_userhash (raw : RawAttr) : DecChar .userhash raw := by dec_simple raw .userhash
theorem dec_priority (raw : RawAttr) : DecChar .priority raw := by dec_simple raw .priority
theorem dec_usecand (raw : RawAttr) : DecChar .useCandidate raw := by dec_simple raw .useCandidate
theorem dec_fp (raw : RawAttr) : DecChar .fingerprint raw := by dec_simple raw .fingerprint
theorem dec_icecd (raw : RawAttr) : DecChar .iceControlled raw := by dec_simple raw .iceControlled
theorem dec_icecg (raw : RawAttr) : DecChar .iceControlling raw := by dec_simple raw .iceControlling
theorem dec_unknown (raw : RawAttr) : DecChar .unknownAttributes raw := by dec_simple raw .unknownAttributes

theorem dec_xma (raw : RawAttr) : DecChar .xorMappedAddress raw := by
  unfold DecChar
  by_cases hty : raw.ty = 0x20
  · right
    rcases addrFromValue_char raw.value with ⟨h1, h2⟩ | ⟨h1, e, h2, h3⟩
    · left
      simp [hty, fromRaw, Spec.code, Kind.code, RawAttr.checkTypeAndLen, checkLen, Spec.accept,
        Spec.fields, h1, h2]
    · right
      refine ⟨by simp [hty, Spec.code], by simp [Spec.accept, h1], e, ?_, h3⟩
      simp [hty, fromRaw, Kind.code, RawAttr.checkTypeAndLen, checkLen, h2]
  · left
    simp [hty, fromRaw, Spec.code, Kind.code, RawAttr.checkTypeAndLen]

theorem dec_as (raw : RawAttr) : DecChar .alternateServer raw := by
  unfold DecChar
  by_cases hty : raw.ty = 0x8023
  · right
    rcases addrFromValue_char raw.value with ⟨h1, h2⟩ | ⟨h1, e, h2, h3⟩
    · left
      simp [hty, fromRaw, Spec.code, Kind.code, RawAttr.checkTypeAndLen, checkLen, Spec.accept,
        Spec.fields, h1, h2]
    · right
      refine ⟨by simp [hty, Spec.code], by simp [Spec.accept, h1], e, ?_, h3⟩
      simp [hty, fromRaw, Kind.code, RawAttr.checkTypeAndLen, checkLen, h2]
  · left
    simp [hty, fromRaw, Spec.code, Kind.code, RawAttr.checkTypeAndLen]

theorem dec_pwas (raw : RawAttr) : DecChar .passwordAlgorithms raw := by
  unfold DecChar
  by_cases hty : raw.ty = 0x8002
  · right
    by_cases hl : raw.value.length < 4
    · right
      refine ⟨by simp [hty, Spec.code], ?_, ?_⟩
      · simp [Spec.accept]; intro h; omega
      · exact ⟨.truncated 4 raw.value.length, by simp [hty, fromRaw, Kind.code, RawAttr.checkTypeAndLen, checkLen, hl], rfl⟩
    · by_cases h4 : raw.value.length % 4 = 0
      · rcases pwAlgosLoop_char raw.value.length raw.value h4 (by omega) with ⟨h1, h2⟩ | ⟨h1, e, h2, h3⟩
        · left
          refine ⟨by simp [hty, Spec.code], ?_, ?_⟩
          · simp only [Spec.accept, h1]; simp [h4]; omega
          · simp [hty, fromRaw, Kind.code, RawAttr.checkTypeAndLen, checkLen, hl, h4, h2, Spec.fields]
        · right
          refine ⟨by simp [hty, Spec.code], ?_, e, ?_, h3⟩
          · simp only [Spec.accept, h1]; simp
          · simp [hty, fromRaw, Kind.code, RawAttr.checkTypeAndLen, checkLen, hl, h4, h2]
      · right
        refine ⟨by simp [hty, Spec.code], ?_, ?_⟩
        · simp [Spec.accept]; intro _ h; omega
        · exact ⟨.invalid, by simp [hty, fromRaw, Kind.code, RawAttr.checkTypeAndLen, checkLen, hl, h4], rfl⟩
  · left
    simp [hty, fromRaw, Spec.code, Kind.code, RawAttr.checkTypeAndLen]

theorem algoEntryOk_length {e : Bytes} (h : Spec.algoEntryOk e = true) : e.length = 4 := by
  simp [Spec.algoEntryOk] at h
  exact h.1.1.1

theorem dec_pwa (raw : RawAttr) : DecChar .passwordAlgorithm raw := by
  unfold DecChar
  obtain ⟨ty, v⟩ := raw
  by_cases hty : ty = 0x1D
  · right
    subst hty
    simp only [Spec.code, Spec.accept, Spec.fields, true_and]
    match v with
    | [] | [_] | [_, _] | [_, _, _] =>
      right
      exact ⟨by simp [Spec.algoEntryOk], _, by simp [fromRaw, Kind.code, RawAttr.checkTypeAndLen, checkLen]; rfl, rfl⟩
    | a :: b :: c :: d :: rest =>
      have hc : ∀ n, ¬ (n + 1 + 1 + 1 + 1 < 4) := by intro n; omega
      by_cases h4 : rest.length % 4 = 0
      · rcases pwAlgoRead_char a b c d rest with ⟨h1, h2⟩ | ⟨h1, e, h2, h3⟩
        · cases rest with
          | nil =>
            left
            refine ⟨h1, ?_⟩
            simp [fromRaw, Kind.code, RawAttr.checkTypeAndLen, checkLen, h2, Spec.byteAt, be16]
          | cons x xs =>
            right
            refine ⟨?_, .tooLarge 4 (a :: b :: c :: d :: x :: xs).length, ?_, rfl⟩
            · simp [Spec.algoEntryOk]
            · simp at h4
              have : (xs.length + 1 + 4) % 4 = 0 := by omega
              simp [fromRaw, Kind.code, RawAttr.checkTypeAndLen, checkLen, h2, this, hc]
        · right
          refine ⟨?_, e, ?_, h3⟩
          · cases rest with
            | nil => exact h1
            | cons x xs => simp [Spec.algoEntryOk]
          · have : (rest.length + 4) % 4 = 0 := by omega
            simp [fromRaw, Kind.code, RawAttr.checkTypeAndLen, checkLen, h2, this, hc]
      · right
        refine ⟨?_, .invalid, ?_, rfl⟩
        · cases rest with
          | nil => simp at h4
          | cons x xs => simp [Spec.algoEntryOk]
        · have : (rest.length + 4) % 4 ≠ 0 := by omega
          simp [fromRaw, Kind.code, RawAttr.checkTypeAndLen, checkLen, this, hc]
  · left
    simp [hty, fromRaw, Spec.code, Kind.code, RawAttr.checkTypeAndLen]

theorem nat_and7 (n : Nat) : n &&& 7 = n % 8 := Nat.and_two_pow_sub_one_eq_mod n 3

theorem dec_ec (raw : RawAttr) : DecChar .errorCode raw := by
  unfold DecChar
  obtain ⟨ty, v⟩ := raw
  by_cases hty : ty = 9
  · right
    subst hty
    simp only [Spec.code, Spec.accept, Spec.fields, true_and]
    match v with
    | [] | [_] | [_, _] | [_, _, _] =>
      right
      exact ⟨by simp, _, by simp [fromRaw, Kind.code, RawAttr.checkTypeAndLen, checkLen]; rfl, rfl⟩
    | a :: b :: c :: d :: rest =>
      have hc : ∀ n, ¬ (n + 1 + 1 + 1 + 1 < 4) := by intro n; omega
      by_cases hl : rest.length ≤ 763
      · have hl' : ¬ (767 < rest.length + 1 + 1 + 1 + 1) := by omega
        by_cases hr : (3 ≤ c.toNat % 8 ∧ c.toNat % 8 ≤ 6) ∧ d.toNat ≤ 99
        · by_cases hu : utf8Valid rest = true
          · left
            obtain ⟨⟨r1, r2⟩, r3⟩ := hr
            have r2' : c.toNat % 8 < 7 := by omega
            have r3' : ¬ (99 < d.toNat) := by omega
            simp [fromRaw, Kind.code, RawAttr.checkTypeAndLen, checkLen, hc, hl', Spec.byteAt,
              and7_toNat, nat_and7, textOf, hu, r1, r2, r2', r3, r3']
            omega
          · right
            refine ⟨by simp [hu], .invalid, ?_, rfl⟩
            obtain ⟨⟨r1, r2⟩, r3⟩ := hr
            have r2' : c.toNat % 8 < 7 := by omega
            have r3' : ¬ (99 < d.toNat) := by omega
            simp [fromRaw, Kind.code, RawAttr.checkTypeAndLen, checkLen, hc, hl', 
              and7_toNat, nat_and7, textOf, hu, r1, r2', r3']
        · right
          refine ⟨?_, .invalid, ?_, rfl⟩
          · simp [Spec.byteAt]; intro _ h1 h2 h3; exact absurd ⟨⟨h1, h2⟩, h3⟩ hr
          · simp [fromRaw, Kind.code, RawAttr.checkTypeAndLen, checkLen, hc, hl', and7_toNat, nat_and7]
            intro h1 h2; omega
      · right
        refine ⟨?_, .tooLarge 767 (a :: b :: c :: d :: rest).length, ?_, rfl⟩
        · simp; intro _ h; omega
        · have hl' : 767 < rest.length + 1 + 1 + 1 + 1 := by omega
          simp [fromRaw, Kind.code, RawAttr.checkTypeAndLen, checkLen, hc, hl']
  · left
    simp [hty, fromRaw, Spec.code, Kind.code, RawAttr.checkTypeAndLen]

theorem decChar (k : Kind) (raw : RawAttr) : DecChar k raw := by
  cases k
  · exact dec_username raw
  · exact dec_mi raw
  · exact dec_ec raw
  · exact dec_unknown raw
  · exact dec_realm raw
  · exact dec_nonce raw
  · exact dec_mi256 raw
  · exact dec_pwa raw
  · exact dec_userhash raw
  · exact dec_xma raw
  · exact dec_priority raw
  · exact dec_usecand raw
  · exact dec_pwas raw
  · exact dec_altdom raw
  · exact dec_software raw
  · exact dec_as raw
  · exact dec_fp raw
  · exact dec_icecd raw
  · exact dec_icecg raw

/-! ### encoder-side list facts -/

theorem u16s_flatMap_enc16 (ts : List Nat) (h : ts.all (· < 65536) = true) :
    Spec.u16s (ts.flatMap enc16) = ts := by
  induction ts with
  | nil => rfl
  | cons t ts ih =>
    simp only [List.all_cons, Bool.and_eq_true, decide_eq_true_eq] at h
    have h1 := h.1
    simp [enc16, Spec.u16s, ih h.2]
    omega

theorem flatMap_enc16_length (ts : List Nat) : (ts.flatMap enc16).length = 2 * ts.length := by
  induction ts with
  | nil => rfl
  | cons t ts ih => simp [List.flatMap_cons, ih]; omega

theorem u16s_length (v : Bytes) : (Spec.u16s v).length = v.length / 2 := by
  rw [← u16List_eq, u16List_length]

theorem u16s_lt (v : Bytes) : (Spec.u16s v).all (· < 65536) = true := by
  fun_induction Spec.u16s v with
  | case1 a b rest ih =>
    have := be16_lt a b
    simp only [be16] at this
    simp [ih, this]
  | case2 v h => simp

theorem flatMap_enc16_u16s (v : Bytes) (h : v.length % 2 = 0) :
    (Spec.u16s v).flatMap enc16 = v := by
  fun_induction Spec.u16s v with
  | case1 a b rest ih =>
    have h' : rest.length % 2 = 0 := by simp at h; omega
    have := enc16_be16 a b
    simp only [be16] at this
    simp [List.flatMap_cons, this, ih h']
  | case2 v hv =>
    match v, hv, h with
    | [], _, _ => rfl
    | [_], _, h => simp at h
    | a :: b :: r, hv, _ => exact absurd rfl (hv a b r)

/-- the wire form of one PASSWORD-ALGORITHMS entry -/
def algoEntry (a : Nat) : Bytes := enc16 a ++ enc16 0

theorem algoEntry_ok (a : Nat) (h : a = 1 ∨ a = 2) :
    ∃ x y, algoEntry a = [x, y, 0, 0] ∧ Spec.algoEntryOk [x, y, 0, 0] = true ∧
      Spec.byteAt [x, y, 0, 0] 0 * 256 + Spec.byteAt [x, y, 0, 0] 1 = a := by
  rcases h with rfl | rfl
  · exact ⟨0, 1, by decide, by decide, by decide⟩
  · exact ⟨0, 2, by decide, by decide, by decide⟩

theorem chunks4_flatMap (as : List Nat) (h : as.all (fun a => a == 1 || a == 2) = true) :
    (Spec.chunks4 (as.flatMap algoEntry)).all Spec.algoEntryOk = true ∧
    (Spec.chunks4 (as.flatMap algoEntry)).map
      (fun e => Spec.byteAt e 0 * 256 + Spec.byteAt e 1) = as := by
  induction as with
  | nil => simp [Spec.chunks4]
  | cons a as ih =>
    simp only [List.all_cons, Bool.and_eq_true, Bool.or_eq_true, beq_iff_eq] at h
    obtain ⟨x, y, e1, e2, e3⟩ := algoEntry_ok a h.1
    obtain ⟨i1, i2⟩ := ih h.2
    rw [List.flatMap_cons, e1]
    simp only [List.cons_append, List.nil_append, chunks4_cons, List.all_cons, List.map_cons, e2, e3, i1, i2]
    simp

theorem flatMap_algoEntry_length (as : List Nat) : (as.flatMap algoEntry).length = 4 * as.length := by
  induction as with
  | nil => rfl
  | cons t ts ih => simp [List.flatMap_cons, ih, algoEntry]; omega

theorem chunks4_length (v : Bytes) : (Spec.chunks4 v).length = v.length / 4 := by
  fun_induction Spec.chunks4 v with
  | case1 a b c d rest ih => simp [ih]; omega
  | case2 v hv =>
    match v, hv with
    | [], _ | [_], _ | [_, _], _ | [_, _, _], _ => simp
    | a :: b :: c :: d :: r, hv => exact absurd rfl (hv a b c d r)

theorem chunks4_fields (v : Bytes) (h4 : v.length % 4 = 0)
    (h : (Spec.chunks4 v).all Spec.algoEntryOk = true) :
    ((Spec.chunks4 v).map (fun e => Spec.byteAt e 0 * 256 + Spec.byteAt e 1)).flatMap algoEntry = v ∧
    ((Spec.chunks4 v).map (fun e => Spec.byteAt e 0 * 256 + Spec.byteAt e 1)).all
      (fun a => a == 1 || a == 2) = true := by
  fun_induction Spec.chunks4 v with
  | case1 a b c d rest ih =>
    have h4' : rest.length % 4 = 0 := by simp at h4; omega
    simp only [List.all_cons, Bool.and_eq_true] at h
    obtain ⟨i1, i2⟩ := ih h4' h.2
    obtain ⟨e1, rfl, rfl⟩ := (algoEntryOk4 a b c d).mp h.1
    have e3 := enc16_be16 a b
    simp only [be16] at e3 e1
    refine ⟨?_, ?_⟩
    · simp only [List.map_cons, List.flatMap_cons, i1]
      simp [Spec.byteAt, algoEntry, e3]
      rfl
    · simp only [List.map_cons, List.all_cons, i2]
      simp [Spec.byteAt, e1]
  | case2 v hv =>
    match v, hv, h4 with
    | [], _, _ => simp
    | [_], _, h4 | [_, _], _, h4 | [_, _, _], _, h4 => simp at h4
    | a :: b :: c :: d :: r, hv, _ => exact absurd rfl (hv a b c d r)

/-! ### encoders against the RFC table -/

theorem pwas_valueBytes (as : List Nat) :
    (AttrVal.passwordAlgorithms as).valueBytes = as.flatMap algoEntry := rfl

theorem addr_valueBytes_ok (a : Addr) (h : a.wf = true) : Spec.addrOk a.valueBytes = true := by
  obtain ⟨v6, ip, port⟩ := a
  cases v6 <;> simp [Addr.wf] at h <;>
    simp [Spec.addrOk, Addr.valueBytes, Spec.byteAt, h.1]

theorem accept_valueBytes (v : AttrVal) (h : v.inLimit = true) :
    Spec.accept v.kind v.valueBytes = true := by
  cases v with
  | errorCode code reason =>
    simp [AttrVal.inLimit] at h
    obtain ⟨⟨⟨h1, h2⟩, h3⟩, h4⟩ := h
    simp [AttrVal.kind, AttrVal.valueBytes, Spec.accept, Spec.byteAt, h4]
    omega
  | unknownAttributes ts =>
    simp only [AttrVal.kind, AttrVal.valueBytes, Spec.accept, flatMap_enc16_length]
    simp
  | passwordAlgorithm a =>
    simp [AttrVal.inLimit] at h
    rcases h with rfl | rfl <;> decide
  | xorMappedAddress a => exact addr_valueBytes_ok a h
  | alternateServer a => exact addr_valueBytes_ok a h
  | passwordAlgorithms as =>
    simp [AttrVal.inLimit] at h
    obtain ⟨⟨h1, h2⟩, h3⟩ := h
    have h3' : as.all (fun a => a == 1 || a == 2) = true := by simpa using h3
    have hne : 1 ≤ as.length := by
      cases as with
      | nil => exact absurd rfl h1
      | cons _ _ => simp
    simp only [AttrVal.kind, Spec.accept, pwas_valueBytes, (chunks4_flatMap as h3').1,
      flatMap_algoEntry_length]
    simp; omega
  | fingerprint crc =>
    simp [AttrVal.inLimit] at h
    simp [AttrVal.kind, AttrVal.valueBytes, Spec.accept, xorBytes_length, h, fpXorConst]
  | _ =>
    first
    | (simp [AttrVal.inLimit, AttrVal.kind, AttrVal.valueBytes, Spec.accept] at h ⊢; done)
    | (simp [AttrVal.inLimit, AttrVal.kind, AttrVal.valueBytes, Spec.accept] at h ⊢; omega)
    | (simp [AttrVal.inLimit, AttrVal.kind, AttrVal.valueBytes, Spec.accept] at h ⊢; simp [h]; done)

theorem addrFields_valueBytes (a : Addr) (h : a.wf = true) : Spec.addrFields a.valueBytes = a := by
  obtain ⟨v6, ip, port⟩ := a
  cases v6 <;> simp [Addr.wf] at h <;>
    simp [Spec.addrFields, Addr.valueBytes, Spec.byteAt, enc16] <;> omega

theorem fields_valueBytes (v : AttrVal) (h : v.inLimit = true) :
    Spec.fields v.kind v.valueBytes = v := by
  cases v with
  | errorCode code reason =>
    simp [AttrVal.inLimit] at h
    obtain ⟨⟨⟨h1, h2⟩, h3⟩, h4⟩ := h
    simp [AttrVal.kind, AttrVal.valueBytes, Spec.fields, Spec.byteAt]
    omega
  | unknownAttributes ts =>
    simp [AttrVal.inLimit] at h
    have h2 : ts.all (· < 65536) = true := by simpa using h.2
    simp only [AttrVal.kind, AttrVal.valueBytes, Spec.fields, u16s_flatMap_enc16 ts h2]
  | passwordAlgorithm a =>
    simp [AttrVal.inLimit] at h
    rcases h with rfl | rfl <;> decide
  | xorMappedAddress a => simp only [AttrVal.kind, AttrVal.valueBytes, Spec.fields, addrFields_valueBytes a h]
  | alternateServer a => simp only [AttrVal.kind, AttrVal.valueBytes, Spec.fields, addrFields_valueBytes a h]
  | passwordAlgorithms as =>
    simp [AttrVal.inLimit] at h
    have h3' : as.all (fun a => a == 1 || a == 2) = true := by simpa using h.2
    simp only [AttrVal.kind, Spec.fields, pwas_valueBytes, (chunks4_flatMap as h3').2]
  | fingerprint crc =>
    simp [AttrVal.inLimit] at h
    have := xorBytes_invol crc fpXorConst (by simp [fpXorConst, h])
    simpa [AttrVal.kind, AttrVal.valueBytes, Spec.fields, fpXorConst] using this
  | priority p =>
    simp [AttrVal.inLimit] at h
    simp [AttrVal.kind, AttrVal.valueBytes, Spec.fields, beNat_encBE 4 p (by simpa using h)]
  | iceControlled p =>
    simp [AttrVal.inLimit] at h
    simp [AttrVal.kind, AttrVal.valueBytes, Spec.fields, beNat_encBE 8 p (by simpa using h)]
  | iceControlling p =>
    simp [AttrVal.inLimit] at h
    simp [AttrVal.kind, AttrVal.valueBytes, Spec.fields, beNat_encBE 8 p (by simpa using h)]
  | _ => simp [AttrVal.kind, AttrVal.valueBytes, Spec.fields]

theorem fields_kind (k : Kind) (val : Bytes) : (Spec.fields k val).kind = k := by
  cases k <;> rfl

theorem valueBytes_fields (k : Kind) (val : Bytes) (h : Spec.accept k val = true)
    (hk : k ≠ .xorMappedAddress ∧ k ≠ .alternateServer ∧ k ≠ .errorCode) :
    (Spec.fields k val).valueBytes = val := by
  cases k with
  | xorMappedAddress => exact absurd rfl hk.1
  | alternateServer => exact absurd rfl hk.2.1
  | errorCode => exact absurd rfl hk.2.2
  | unknownAttributes =>
    simp [Spec.accept] at h
    simp only [Spec.fields, AttrVal.valueBytes, flatMap_enc16_u16s val h]
  | passwordAlgorithm =>
    simp only [Spec.accept] at h
    have hl := algoEntryOk_length h
    match val, hl, h with
    | [a, b, c, d], _, h =>
      obtain ⟨e1, rfl, rfl⟩ := (algoEntryOk4 a b c d).mp h
      have e3 := enc16_be16 a b
      simp only [be16] at e3
      simp [Spec.fields, AttrVal.valueBytes, Spec.byteAt, e3]
      rfl
  | passwordAlgorithms =>
    simp [Spec.accept] at h
    have h3 : (Spec.chunks4 val).all Spec.algoEntryOk = true := by simpa using h.2
    simp only [Spec.fields, pwas_valueBytes, (chunks4_fields val h.1.2 h3).1]
  | priority =>
    simp [Spec.accept] at h
    simp only [Spec.fields, AttrVal.valueBytes, encBE_beNat 4 val h]
  | iceControlled =>
    simp [Spec.accept] at h
    simp only [Spec.fields, AttrVal.valueBytes, encBE_beNat 8 val h]
  | iceControlling =>
    simp [Spec.accept] at h
    simp only [Spec.fields, AttrVal.valueBytes, encBE_beNat 8 val h]
  | fingerprint =>
    simp [Spec.accept] at h
    have := xorBytes_invol val fpXorConst (by simp [fpXorConst, h])
    simpa [AttrVal.valueBytes, Spec.fields, fpXorConst] using this
  | useCandidate =>
    simp [Spec.accept] at h
    simp [Spec.fields, AttrVal.valueBytes, h]
  | _ => simp [Spec.fields, AttrVal.valueBytes]

theorem addrFields_wf (val : Bytes) (h : Spec.addrOk val = true) : (Spec.addrFields val).wf = true := by
  match val with
  | [] | [_] | [_, _] | [_, _, _] => simp [Spec.addrOk] at h
  | x :: fam :: p0 :: p1 :: rest =>
    have := be16_lt p0 p1
    simp only [be16] at this
    simp [Spec.addrOk, Spec.byteAt] at h
    rcases h with ⟨h1, h2⟩ | ⟨h1, h2⟩ <;>
      simp [Spec.addrFields, Addr.wf, Spec.byteAt, h1, h2, this]

theorem fields_inLimit (k : Kind) (val : Bytes) (h : Spec.accept k val = true)
    (hl : val.length < 65536 ∨
      (k ≠ .alternateDomain ∧ k ≠ .unknownAttributes ∧ k ≠ .passwordAlgorithms)) :
    (Spec.fields k val).inLimit = true := by
  cases k with
  | alternateDomain =>
    simp [Spec.accept] at h
    have : val.length < 65536 := by
      rcases hl with hl | hl
      · exact hl
      · exact absurd rfl hl.1
    simp [Spec.fields, AttrVal.inLimit, h, this]
  | unknownAttributes =>
    have hlen : val.length < 65536 := by
      rcases hl with hl | hl
      · exact hl
      · exact absurd rfl hl.2.1
    have h2 := u16s_lt val
    simp only [Spec.fields, AttrVal.inLimit, u16s_length, h2]
    simp; omega
  | passwordAlgorithms =>
    have hlen : val.length < 65536 := by
      rcases hl with hl | hl
      · exact hl
      · exact absurd rfl hl.2.2
    simp [Spec.accept] at h
    have h3 : (Spec.chunks4 val).all Spec.algoEntryOk = true := by simpa using h.2
    have h4 := (chunks4_fields val h.1.2 h3).2
    have h5 := chunks4_length val
    simp only [Spec.fields, AttrVal.inLimit, h4, List.length_map, h5, List.isEmpty_iff]
    have : List.map (fun e => Spec.byteAt e 0 * 256 + Spec.byteAt e 1) (Spec.chunks4 val) ≠ [] := by
      intro hh
      have := congrArg List.length hh
      simp [h5] at this
      omega
    simp [this]
    refine ⟨?_, by omega⟩
    intro hh
    rw [hh] at h5
    simp at h5
    omega
  | errorCode =>
    match val with
    | [] | [_] | [_, _] | [_, _, _] => simp [Spec.accept] at h
    | a :: b :: c :: d :: rest =>
      simp [Spec.accept, Spec.byteAt] at h
      simp [Spec.fields, AttrVal.inLimit, Spec.byteAt, h]
      omega
  | passwordAlgorithm =>
    simp only [Spec.accept] at h
    have hl := algoEntryOk_length h
    match val, hl, h with
    | [a, b, c, d], _, h =>
      obtain ⟨e1, rfl, rfl⟩ := (algoEntryOk4 a b c d).mp h
      simp only [be16] at e1
      simp [Spec.fields, AttrVal.inLimit, Spec.byteAt, e1]
  | xorMappedAddress => exact addrFields_wf val h
  | alternateServer => exact addrFields_wf val h
  | priority =>
    simp [Spec.accept] at h
    have := beNat_lt val
    simp [Spec.fields, AttrVal.inLimit]
    rw [h] at this; simpa using this
  | iceControlled =>
    simp [Spec.accept] at h
    have := beNat_lt val
    simp [Spec.fields, AttrVal.inLimit]
    rw [h] at this; simpa using this
  | iceControlling =>
    simp [Spec.accept] at h
    have := beNat_lt val
    simp [Spec.fields, AttrVal.inLimit]
    rw [h] at this; simpa using this
  | fingerprint =>
    simp [Spec.accept] at h
    simp [Spec.fields, AttrVal.inLimit, xorBytes_length, h]
  | _ => simp [Spec.accept] at h; simp [Spec.fields, AttrVal.inLimit, h]

/-! ### consequences of the characterisation (the C08 statements) -/

theorem fromRaw_ok_iff (k : Kind) (raw : RawAttr) (v : AttrVal) :
    fromRaw k raw = .ok v ↔
      raw.ty = Spec.code k ∧ Spec.accept k raw.value = true ∧ v = Spec.fields k raw.value := by
  rcases decChar k raw with ⟨h1, h2⟩ | ⟨h1, h2, h3⟩ | ⟨h1, h2, e, h3, h4⟩
  · simp [h2, h1]
  · simp [h1, h2, h3, eq_comm]
  · simp [h3, h2]

theorem fromRaw_decode_iff (k : Kind) (raw : RawAttr) :
    (∃ v, fromRaw k raw = .ok v) ↔ raw.ty = Spec.code k ∧ Spec.accept k raw.value = true := by
  simp only [fromRaw_ok_iff]
  constructor
  · rintro ⟨v, h1, h2, _⟩; exact ⟨h1, h2⟩
  · rintro ⟨h1, h2⟩; exact ⟨_, h1, h2, rfl⟩

theorem fromRaw_wrong_type (k : Kind) (raw : RawAttr) (h : raw.ty ≠ Spec.code k) :
    fromRaw k raw = .error .wrongImpl := by
  rcases decChar k raw with ⟨_, h2⟩ | ⟨h1, _⟩ | ⟨h1, _⟩
  · exact h2
  · exact absurd h1 h
  · exact absurd h1 h

theorem fromRaw_no_fault (k : Kind) (raw : RawAttr) (f : Fault) :
    fromRaw k raw ≠ .error (.fault f) := by
  rcases decChar k raw with ⟨_, h2⟩ | ⟨_, _, h3⟩ | ⟨_, _, e, h3, h4⟩
  · rw [h2]; intro h; cases h
  · rw [h3]; intro h; cases h
  · rw [h3]; intro h; cases h; cases h4

theorem code_eq (k : Kind) : k.code = Spec.code k := by cases k <;> rfl

theorem fromRaw_roundtrip (v : AttrVal) (h : v.inLimit = true) : fromRaw v.kind v.toRaw = .ok v := by
  rw [fromRaw_ok_iff]
  exact ⟨code_eq _, accept_valueBytes v h, (fields_valueBytes v h).symm⟩

/-- `decoded_inLimit` holds for values that fit the 16-bit attribute length field (and for every
    kind except the three unbounded lists / strings without that restriction) -/
theorem fromRaw_inLimit (k : Kind) (raw : RawAttr) (v : AttrVal) (h : fromRaw k raw = .ok v)
    (hl : raw.value.length < 65536 ∨
      (k ≠ .alternateDomain ∧ k ≠ .unknownAttributes ∧ k ≠ .passwordAlgorithms)) :
    v.inLimit = true ∧ v.kind = k := by
  obtain ⟨_, h2, rfl⟩ := (fromRaw_ok_iff k raw v).mp h
  exact ⟨fields_inLimit k raw.value h2 hl, fields_kind k raw.value⟩

theorem fromRaw_reencode_exact (k : Kind) (raw : RawAttr) (v : AttrVal) (h : fromRaw k raw = .ok v)
    (hk : k ≠ .xorMappedAddress ∧ k ≠ .alternateServer ∧ k ≠ .errorCode) :
    v.toRaw = raw := by
  obtain ⟨h1, h2, rfl⟩ := (fromRaw_ok_iff k raw _).mp h
  obtain ⟨ty, val⟩ := raw
  simp only [AttrVal.toRaw, fields_kind, valueBytes_fields k val h2 hk, code_eq]
  simp at h1
  rw [h1]

/-- `stable` without going through `decoded_inLimit` (which fails for over-long values) -/
theorem fromRaw_stable (k : Kind) (raw : RawAttr) (v : AttrVal) (h : fromRaw k raw = .ok v) :
    fromRaw k v.toRaw = .ok v := by
  by_cases hk : k ≠ .xorMappedAddress ∧ k ≠ .alternateServer ∧ k ≠ .errorCode
  · rw [fromRaw_reencode_exact k raw v h hk]; exact h
  · have hl : k ≠ .alternateDomain ∧ k ≠ .unknownAttributes ∧ k ≠ .passwordAlgorithms := by
      cases k <;> simp at hk ⊢
    obtain ⟨h1, h2⟩ := fromRaw_inLimit k raw v h (Or.inr hl)
    subst h2
    exact fromRaw_roundtrip v h1

end StunVerif
