/-
Helper lemmas for the agent model composed with the codec model (Props/C07Codec, Props/C18Codec).
-/
import StunVerif.Agent.Composed
import StunVerif.Spec.Agent
import StunVerif.Lemmas.AgentMap
import StunVerif.Lemmas.Roundtrip
import StunVerif.Lemmas.Seal
namespace StunVerif.Agent

/-! ### `send` -/

/-- the stored state of a request just sent -/
def codecSent (tr : Transport) (bytes : Bytes) (hc : Bool) (to : SockAddr) (now : Time) : Req :=
  { Req.new tr bytes hc to with lastSend := some now }

/-- the accepted `send` of a request: what is transmitted and what is stored -/
theorem codec_step_sendReq_new (s : State) (tid : Nat) (bytes : Bytes) (hc : Bool) (to : SockAddr)
    (now : Time) (h : lookup s.out tid = none) :
    step s (.sendReq tid bytes hc to now) =
      ({ s with out := insert s.out tid (codecSent s.transport bytes hc to now) },
        .transmit (some tid) ⟨bytes, s.transport, s.localAddr, to⟩) := by
  cases htr : s.transport <;> simp [step, h, reqPoll, Req.new, htr, mkTransmit, codecSent]

theorem codec_step_sendReq_dup (s : State) (tid : Nat) (bytes : Bytes) (hc : Bool) (to : SockAddr)
    (now : Time) (h : (lookup s.out tid).isSome = true) :
    step s (.sendReq tid bytes hc to now) = (s, .inProgress) := by
  simp [step, h]

theorem codec_new_fields (tr : Transport) (bytes : Bytes) (hc : Bool) (to : SockAddr) (now : Time) :
    (codecSent tr bytes hc to now).hadCreds = hc ∧ (codecSent tr bytes hc to now).bytes = bytes ∧
    (codecSent tr bytes hc to now).to = to := by
  cases tr <;> exact ⟨rfl, rfl, rfl⟩

theorem codec_sendMsg_request (s : State) (b : Builder) (to : SockAddr) (now : Time)
    (hc : Spec.classOfType b.ty = 0) (hfree : isOutstanding s b.tid = false) :
    sendMsg s b to now =
      ({ s with out := (insert s.out b.tid
          (codecSent s.transport b.build (b.hasAttribute tyMI || b.hasAttribute tyMI256) to now)) },
        .transmit (some b.tid) ⟨b.build, s.transport, s.localAddr, to⟩) := by
  have hl : lookup s.out b.tid = none := by
    unfold isOutstanding at hfree
    cases h : lookup s.out b.tid with
    | none => rfl
    | some r => rw [h] at hfree; cases hfree
  unfold sendMsg
  rw [if_pos hc]
  exact codec_step_sendReq_new s _ _ _ _ _ hl

/-! ### `handle_stun` -/

theorem codec_validatedPeer_out (s : State) (a : SockAddr) : (validatedPeer s a).out = s.out := by
  unfold validatedPeer; split <;> rfl

/-- a response whose id is outstanding, request sealed, verdict good under the configured key -/
theorem codec_handle_response (s : State) (m : InMsg) (src : SockAddr) (req : Req) (k : Key)
    (hr : m.isResponse = true) (hl : lookup s.out m.tid = some req) (hrc : s.remoteCreds = some k)
    (hv : m.validUnder k = true) : (step s (.handle m src)).2 = .response := by
  cases hc : req.hadCreds <;> simp [step, hr, hl, hc, hrc, hv]

/-- a response whose id is outstanding, request sealed, verdict bad under every key -/
theorem codec_handle_drop (s : State) (m : InMsg) (src : SockAddr) (req : Req)
    (hr : m.isResponse = true) (hl : lookup s.out m.tid = some req) (hc : req.hadCreds = true)
    (hv : ∀ k, m.validUnder k = false) :
    (step s (.handle m src)).2 = .drop ∧
      lookup (step s (.handle m src)).1.out m.tid = some req := by
  cases hrc : s.remoteCreds with
  | none => simp [step, hr, hl, hc, hrc, lookup_insert_self]
  | some k => simp [step, hr, hl, hc, hrc, hv k, lookup_insert_self]

theorem codec_handle_incoming (s : State) (m : InMsg) (src : SockAddr)
    (hr : m.isResponse = false) :
    (step s (.handle m src)).2 = .incoming ∧ (step s (.handle m src)).1.out = s.out := by
  simp [step, hr, codec_validatedPeer_out]

/-! ### the parsed bytes of a reachable builder -/

theorem codec_cls_build (H : Hashes) (hH : Spec.HashesOk H) (b : Builder) (hr : Spec.Reach H b)
    (hs : b.byteLen ≤ 65535 + 20) : (⟨b.build⟩ : Msg).cls = Spec.classOfType b.ty := by
  unfold Msg.cls
  rw [(build_parse H hH b hr hs).2.1]

theorem codec_parse_eq (H : Hashes) (hH : Spec.HashesOk H) (b : Builder) (hr : Spec.Reach H b)
    (hs : b.byteLen ≤ 65535 + 20) (m : Msg) (hp : msgFromBytes b.build = .ok m) : m = ⟨b.build⟩ := by
  rw [(build_parse H hH b hr hs).1] at hp
  cases hp
  rfl

end StunVerif.Agent
