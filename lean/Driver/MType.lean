import Driver.Proto
import StunVerif.Spec.MsgType
namespace Driver.MTypeFam
open StunVerif Driver

def hex4 (n : Nat) : String := toHex (enc16 n)
def hex32 (n : Nat) : String := toHex (encBE 16 n)

/-- verdicts are computed from the RFC-level Spec, so a disagreement is a violation of C19 -/
def handle (l : Line) : Verdict :=
  match l.kv.get "op" with
  | "frombytes" =>
    match ofHex (l.kv.get "b") with
    | some [a, b] =>
      let v := be16 a b
      if Spec.isStunType v then
        let w := hex4 v
        let c := Spec.classOfType v
        let m := Spec.methodOfType v
        let echo := if c = 0 then s!":{hex4 (Spec.interleave 2 m)}:{hex4 (Spec.interleave 3 m)}" else ""
        exact "mtype frombytes ok" l.obs
          s!"ok cls={c} meth={m} same=1 wire={w} wire2={w} hdr=ok:{c}:{m} msg=ok:{c}:{m}:{c}{echo}"
      else exact "mtype frombytes notstun" l.obs "err notstun hdr=refused msg=refused"
    | _ => .bad "mtype frombytes expects two bytes" ""
  | "fcm" =>
    match (l.kv.get "c").toNat?, (l.kv.get "m").toNat? with
    | some c, some m =>
      let w := hex4 (Spec.interleave c m)
      let hc := String.ofList ((List.range 4).map fun k => if k = c then '1' else '0')
      let hm := String.ofList ([m, m ^^^ 1, m ^^^ 0x800, 0, 0xfff].map fun k => if k = m then '1' else '0')
      exact "mtype fcm" l.obs
        s!"wire={w} wire2={w} wire3={w} wire4={w} cls={c} meth={m} hc={hc} hm={hm} resp={if c ≥ 2 then 1 else 0}"
    | _, _ => .bad "mtype fcm args" ""
  | "tid" =>
    match ofHex (l.kv.get "x") with
    | some bs =>
      let x := beNat bs
      let id := x % 2 ^ 96
      let wire := toHex (encBE 4 Spec.cookie ++ encBE 12 id)
      let tag := if x < 2 ^ 96 then "mtype tid fits" else "mtype tid masked"
      exact tag l.obs s!"id={hex32 id} wire={wire} back={hex32 id} hdr={hex32 id} bld={hex32 id}"
    | none => .bad "mtype tid arg" ""
  | "tidgen" => exact "mtype tidgen" l.obs "fits"
  | o => .bad s!"unknown op {o}" ""

end Driver.MTypeFam
