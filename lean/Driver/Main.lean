import Driver.Proto
import Driver.Tcp
import Driver.MType
import Driver.Attr
import Driver.Msg
import Driver.Xor
import Driver.Bld
import Driver.Agent
open Driver

def dispatch (l : Line) : Verdict :=
  match l.fam with
  | "tcp" => TcpFam.handle l
  | "mtype" => MTypeFam.handle l
  | "attr" => AttrFam.handle l
  | "msg" => MsgFam.handle l
  | "xor" => XorFam.handle l
  | "bld" => BldFam.handle l
  | "ag" => AgentFam.handle l
  | f => .bad s!"unknown family {f}" ""

partial def loop (h : IO.FS.Stream) (out : IO.FS.Stream) : IO Unit := do
  let line ← h.getLine
  if line.isEmpty then return ()
  match parseLine line with
  | none => out.putStrLn "skip"
  | some l => out.putStrLn (dispatch l).render
  loop h out

def main : IO Unit := do
  let stdin ← IO.getStdin
  let stdout ← IO.getStdout
  loop stdin stdout
