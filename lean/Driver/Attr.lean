import Driver.Proto
import StunVerif.Attr.Addr
namespace Driver.AttrFam
open StunVerif Driver

def hex4 (n : Nat) : String := toHex (enc16 n)

def renderAddr (a : Addr) : String :=
  s!"fam={if a.v6 then 6 else 4},ip={toHex a.ip},port={a.port}"

def sortDedup (l : List Nat) : List Nat := (l.mergeSort (· ≤ ·)).eraseDups

def dots (l : List String) : String := if l.isEmpty then "-" else ".".intercalate l

/-- canonical field text, identical to `TV::fields` of the harness -/
def renderVal : AttrVal → String
  | .username s | .realm s | .nonce s | .software s | .alternateDomain s => s!"s={hexOrDash s}"
  | .messageIntegrity h | .messageIntegritySha256 h | .userhash h => s!"h={hexOrDash h}"
  | .errorCode c r => s!"code={c},s={hexOrDash r}"
  | .unknownAttributes ts => s!"set={dots ((sortDedup ts).map hex4)},enc={hexOrDash (ts.flatMap enc16)}"
  | .passwordAlgorithm a => s!"a={a}"
  | .passwordAlgorithms as => s!"l={dots (as.map toString)}"
  | .xorMappedAddress a | .alternateServer a => renderAddr a
  | .priority p => s!"p={p}"
  | .useCandidate => "-"
  | .fingerprint c => s!"c={toHex c}"
  | .iceControlled t | .iceControlling t => s!"t={t}"

def fieldsKV (f : String) : KV := (splitList "," f).map splitKV

def parseAddr (kv : KV) : Option Addr := do
  let ip ← ofHex (kv.get "ip")
  let port ← (kv.get "port").toNat?
  some ⟨kv.get "fam" == "6", ip, port⟩

/-- constructor arguments -> the value the constructor builds (no limit checks here) -/
def parseFields (k : Kind) (f : String) : Option AttrVal :=
  let kv := fieldsKV f
  match k with
  | .username => (ofHex (kv.get "s")).map .username
  | .realm => (ofHex (kv.get "s")).map .realm
  | .nonce => (ofHex (kv.get "s")).map .nonce
  | .software => (ofHex (kv.get "s")).map .software
  | .alternateDomain => (ofHex (kv.get "s")).map .alternateDomain
  | .messageIntegrity => (ofHex (kv.get "h")).map .messageIntegrity
  | .messageIntegritySha256 => (ofHex (kv.get "h")).map .messageIntegritySha256
  | .userhash => (ofHex (kv.get "h")).map .userhash
  | .errorCode => do some (.errorCode (← (kv.get "code").toNat?) (← ofHex (kv.get "s")))
  | .unknownAttributes => (ofHex (kv.get "l")).map fun b => .unknownAttributes (u16List b)
  | .passwordAlgorithm => (kv.get "a").toNat?.map .passwordAlgorithm
  | .passwordAlgorithms =>
    ((splitList "." (kv.get "l")).filter (· ≠ "-")).mapM (fun (x : String) => x.toNat?) |>.map .passwordAlgorithms
  | .xorMappedAddress => do
    let a ← parseAddr kv
    let tid ← ofHex (kv.get "tid")
    some (xorMappedNew a (beNat tid))
  | .alternateServer => (parseAddr kv).map .alternateServer
  | .priority => (kv.get "p").toNat?.map .priority
  | .useCandidate => some .useCandidate
  | .fingerprint => (ofHex (kv.get "c")).map .fingerprint
  | .iceControlled => (kv.get "t").toNat?.map .iceControlled
  | .iceControlling => (kv.get "t").toNat?.map .iceControlling

/-- does the public constructor accept these arguments?  (limits of `new`; fixed-size arrays are
    enforced by the type system, which the harness reports as refused) -/
def ctorAccepts : AttrVal → Bool
  | .username s => s.length ≤ 513
  | .realm s | .nonce s | .software s => s.length ≤ 763
  | .alternateDomain _ => true
  | .messageIntegrity h => h.length == 20
  | .messageIntegritySha256 h => 16 ≤ h.length && h.length ≤ 32 && h.length % 4 == 0
  | .userhash h => h.length == 32
  | .errorCode c _ => 300 ≤ c && c < 700
  | .fingerprint c => c.length == 4
  | _ => true

def errClass (e : PErr) : String :=
  match e with
  | .wrongImpl => "wrongimpl"
  | .fault _ => "panic"
  | _ => "refused"

def obsErrClass (obs : String) : String :=
  if obs == "err wrongimpl" then "wrongimpl"
  else if obs.startsWith "err " then "refused"
  else if obs == "panic" then "panic"
  else "ok"

def renderWrite (r : Except WErr (Nat × Bytes)) (dest : Bytes) : String :=
  match r with
  | .ok (n, d) => s!"ok {n} {hexOrDash d}"
  | .error (.tooSmall e a) => s!"toosmall {e} {a} {hexOrDash dest}"
  | .error _ => s!"werr {hexOrDash dest}"

def handle (l : Line) : Verdict :=
  match l.kv.get "op" with
  | "raw" =>
    match ofHex (l.kv.get "b") with
    | none => .bad "hex" ""
    | some b =>
      match rawFromBytes b with
      | .ok a =>
        let hdr := match b with
          | t0 :: t1 :: l0 :: l1 :: _ => s!"{hex4 (be16 t0 t1)}:{be16 l0 l1}"
          | _ => "err"
        exact "attr raw ok" l.obs
          s!"ok ty={hex4 a.ty} v={hexOrDash a.value} len={a.value.length % 65536} plen={a.paddedLen} bytes={toHex a.toBytes} own=1 hdr={hdr}"
      | .error e => exact s!"attr raw {e.render.takeWhile (· ≠ ' ')} {(e.render.drop 4).takeWhile (· ≠ ' ')}" l.obs e.render
  | "dec" =>
    match Kind.ofName (l.kv.get "k"), ofHex (l.kv.get "ty"), ofHex (l.kv.get "v") with
    | some k, some [t0, t1], some v =>
      let raw : RawAttr := ⟨be16 t0 t1, v⟩
      match fromRaw k raw with
      | .ok val =>
        if v.length > 65535 then exact s!"attr dec {k.name} ok big" l.obs "ok big" else
        let r2 := val.toRaw
        let stable := match fromRaw k r2 with
          | .ok v2 => if v2 = val then 1 else 0
          | .error _ => 0
        exact s!"attr dec {k.name} ok" l.obs
          s!"ok f={renderVal val} ety={hex4 r2.ty} enc={hexOrDash r2.value} len={val.length} plen={val.paddedLen} stable={stable}"
      | .error e =>
        let want := errClass e
        let got := obsErrClass l.obs
        if want == got then .ok s!"attr dec {k.name} {want}"
        else .bad s!"decoder verdict class differs: implementation {got}, spec {want}" e.render
    | _, _, _ => .bad "args" ""
  | "enc" =>
    match Kind.ofName (l.kv.get "k") with
    | none => .bad "kind" ""
    | some k =>
      match parseFields k (l.kv.get "f") with
      | none => .bad "fields" ""
      | some val =>
        if !ctorAccepts val then exact s!"attr enc {k.name} refused" l.obs "refused" else
        let raw := val.toRaw
        let back := match fromRaw k raw with
          | .ok v2 => s!"ok:{renderVal v2}"
          | .error _ => "err_"
        let model := s!"ok ty={hex4 raw.ty} gty={hex4 val.kind.code} v={hexOrDash raw.value} len={val.length} plen={val.paddedLen} bytes={toHex raw.toBytes} f={renderVal val} back={back}"
        -- a decoder refusal is compared by class only
        let obs := if back == "err_" then
            match l.obs.splitOn " back=" with
            | [a, b] => if b.startsWith "err_" then a ++ " back=err_" else l.obs
            | _ => l.obs
          else l.obs
        exact s!"attr enc {k.name} {if back == "err_" then "not-decodable" else "ok"}" obs model
  | "write" =>
    match (l.kv.get "n").toNat?, ofHex (l.kv.get "fill") with
    | some n, some [fill] =>
      let dest := List.replicate n fill
      if l.kv.get "k" == "Raw" then
        match ofHex (l.kv.get "ty"), ofHex (l.kv.get "v") with
        | some [t0, t1], some v =>
          let raw : RawAttr := ⟨be16 t0 t1, v⟩
          let r := raw.writeInto dest
          exact s!"attr write Raw {if n < raw.paddedLen then "short" else if n = raw.paddedLen then "exact" else "larger"}" l.obs
            s!"{renderWrite r dest} tb={toHex raw.toBytes}"
        | _, _ => .bad "args" ""
      else
        match Kind.ofName (l.kv.get "k") with
        | none => .bad "kind" ""
        | some k =>
          match parseFields k (l.kv.get "f") with
          | none => .bad "fields" ""
          | some val =>
            if !ctorAccepts val then exact s!"attr write {k.name} refused" l.obs "refused" else
            let r := val.writeInto dest
            exact s!"attr write {k.name} {if n < val.paddedLen then "short" else if n = val.paddedLen then "exact" else "larger"}" l.obs
              s!"{renderWrite r dest} tb={toHex val.toRaw.toBytes}"
    | _, _ => .bad "args" ""
  | o => .bad s!"unknown op {o}" ""

end Driver.AttrFam
