import Driver.Proto
import StunVerif.Agent.Tcp
namespace Driver.TcpFam
open StunVerif StunVerif.Tcp Driver

/-- ops=p:<hex>,l,l,p:<hex>   (p = push_data, l = pull_data) -/
def parseOps (s : String) : Option (List Op) :=
  (splitList "," s).mapM fun t =>
    if t == "l" then some Op.pull
    else if t.startsWith "p:" then (ofHex (t.drop 2).toString).map Op.push
    else none

def renderPull : Option Bytes → String
  | none => "n"
  | some f => "s:" ++ hexOrDash f

def handle (l : Line) : Verdict :=
  match parseOps (l.kv.get "ops") with
  | none => .bad "unparsable ops" ""
  | some ops =>
    let r := run [] ops
    let model := ",".intercalate (r.2.map renderPull)
    let somes := (r.2.filter Option.isSome).length
    exact s!"tcp pulls={r.2.length} some={somes}" l.obs model

end Driver.TcpFam
