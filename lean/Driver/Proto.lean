/-
Line protocol shared by all families:   <family> k=v k=v … => <observation of the implementation>
The driver answers one line per input line:  `ok <tag>`  or  `BAD <reason> || model=<observation>`.
-/
import StunVerif.Bytes
namespace Driver
open StunVerif

abbrev KV := List (String × String)

def KV.get? (kv : KV) (k : String) : Option String := (kv.find? (·.1 == k)).map (·.2)
def KV.get (kv : KV) (k : String) : String := (kv.get? k).getD ""

structure Line where
  fam : String
  kv : KV
  obs : String

def splitKV (tok : String) : String × String :=
  match tok.splitOn "=" with
  | [] => ("", "")
  | [k] => (k, "")
  | k :: rest => (k, "=".intercalate rest)

def parseLine (raw : String) : Option Line :=
  let s := raw.trimAscii.toString
  if s.isEmpty || s.startsWith "#" then none else
  let (lhs, obs) := match s.splitOn " => " with
    | [l] => (l, "")
    | l :: rest => (l, " => ".intercalate rest)
    | [] => ("", "")
  match (lhs.splitOn " ").filter (· ≠ "") with
  | [] => none
  | fam :: toks => some { fam := fam, kv := toks.map splitKV, obs := obs.trimAscii.toString }

inductive Verdict where
  | ok (tag : String)
  | bad (reason : String) (model : String)

def Verdict.render : Verdict → String
  | .ok tag => s!"ok {tag}"
  | .bad r m => s!"BAD {r} || model={m}"

/-- exact comparison of the implementation's observation with the model's -/
def exact (tag : String) (impl model : String) : Verdict :=
  if impl == model then .ok tag else .bad "observation differs from the model" model

def splitList (sep : String) (s : String) : List String :=
  if s.isEmpty then [] else s.splitOn sep

end Driver
