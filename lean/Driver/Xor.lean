import Driver.Proto
import Driver.Attr
namespace Driver.XorFam
open StunVerif Driver

def render (a : Addr) : String := s!"{if a.v6 then 6 else 4}:{toHex a.ip}:{a.port}"

def handle (l : Line) : Verdict :=
  match AttrFam.parseAddr l.kv, ofHex (l.kv.get "tid"), ofHex (l.kv.get "tid2") with
  | some a, some t, some t2 =>
    let tid := beNat t
    let tid2 := beNat t2
    let v := xorMappedNew a tid
    let raw := v.toRaw
    let stored := xorAddr a tid
    let back := xorAddr stored tid
    let other := xorAddr stored tid2
    let same := if other == a then "same" else "differs"
    exact s!"xor v{if a.v6 then 6 else 4} other-tid-{same}" l.obs
      s!"ty={AttrFam.hex4 raw.ty} wire={toHex raw.value} back={render back} other={render other} viawire={render back} viamsg={render back} inplace={toHex raw.toBytes}"
  | _, _, _ => .bad "args" ""

end Driver.XorFam
