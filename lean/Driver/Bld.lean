import Driver.Proto
import Driver.Msg
namespace Driver.BldFam
open StunVerif Driver

def hex4 (n : Nat) : String := toHex (enc16 n)

def parseShort (bytes : Bytes) : String :=
  match msgFromBytes bytes with
  | .error e => e.render.replace " " "_"
  | .ok m => s!"ok,{m.cls},{m.method},{MsgFam.hex24 m.tid},{MsgFam.renderAttrs m.iter}"

def refusedOrOk (r : Except WErr Builder) (b : Builder) : Builder × String :=
  match r with
  | .ok b' => (b', "ok")
  | .error _ => (b, "refused")

/-- one builder operation on the model: new state and canonical observation -/
def stepOp (cls : Nat) (b : Builder) (op : String) : Option (Builder × String) :=
  match op.splitOn "/" with
  | ["a", k, f] => do
    let kind ← Kind.ofName k
    let v ← AttrFam.parseFields kind f
    some (refusedOrOk (b.add (.typed v)) b)
  | [r, ty, v] =>
    if r == "r" || r == "ro" then do
      let t ← ofHex ty
      let bytes ← ofHex v
      some (refusedOrOk (b.add (.raw ⟨beNat t, bytes⟩)) b)
    else if r == "q" then
      let bytes := b.build
      let has := ((splitList "." ty).filter (· ≠ "-")).map fun (t : String) =>
        match ofHex t with
        | some x => if b.hasAttribute (beNat x) then "1" else "0"
        | none => "?"
      let hasS := if has.isEmpty then "-" else "".intercalate has
      let val := if v == "-" then "-" else
        match MsgFam.parseCreds v, msgFromBytes bytes with
        | some c, .ok m =>
          match m.validateIntegrity MsgFam.refHashes c with
          | .ok .sha1 => "ok_sha1"
          | .ok .sha256 => "ok_sha256"
          | .error e => e.render.replace " " "_"
        | _, _ => "noparse"
      some (b, s!"b={toHex bytes},len={b.byteLen},has={hasS},btid={MsgFam.hex24 b.tid},cls=1,p={parseShort bytes},v={val}")
    else if r == "wp" then do
      let (fs, extra) ← match ty.splitOn "+" with
        | [f] => some (f, 0)
        | [f, e] => e.toNat?.map (f, ·)
        | _ => none
      let fill ← ofHex fs
      match fill with
      | [f] =>
        match b.writeInto (List.replicate (b.byteLen + extra) f) with
        | .error _ => some (b, "refused")
        | .ok (k, d) =>
          let bytes := d.take k
          let val := if v == "-" then "-" else
            match MsgFam.parseCreds v, msgFromBytes bytes with
            | some c, .ok m =>
              match m.validateIntegrity MsgFam.refHashes c with
              | .ok .sha1 => "ok_sha1"
              | .ok .sha256 => "ok_sha256"
              | .error e => e.render.replace " " "_"
            | _, _ => "noparse"
          some (b, s!"wp={parseShort bytes},v={val}")
      | _ => none
    else if r == "w" then do
      let n ← ty.toNat?
      let fill ← ofHex v
      match fill with
      | [f] =>
        let dest := List.replicate n f
        match b.writeInto dest with
        | .ok (k, d) => some (b, s!"ok:{k}:{hexOrDash d}")
        | .error (.tooSmall e a) => some (b, s!"toosmall:{e}:{a}:{hexOrDash dest}")
        | .error _ => some (b, s!"refused:{hexOrDash dest}")
      | _ => none
    else none
  | [m, cred] =>
    if m == "m1" || m == "m2" then do
      let c ← MsgFam.parseCreds cred
      some (refusedOrOk (b.addIntegrity MsgFam.refHashes c (if m == "m1" then .sha1 else .sha256)) b)
    else none
  | ["fp"] => some (refusedOrOk b.addFingerprint b)
  | ["own"] => some (b.intoOwned, "-")
  | ["clone"] => some (b, "-")
  | ["t"] =>
    match msgFromBytes b.build with
    | .error _ => some (b, "noparse")
    | .ok m =>
      let model := Kind.all.map fun k =>
        match m.attribute k with
        | .ok v => s!"ok:{AttrFam.renderVal v}"
        | .error (.missing _) => "missing"
        | .error _ => "err_"
      some (b, "|".intercalate model)
  | _ => none

def runOps (cls : Nat) : Builder → List String → Option (List String)
  | _, [] => some []
  | b, op :: ops => do
    let (b', o) ← stepOp cls b op
    let rest ← runOps cls b' ops
    some (o :: rest)

/-- refusals are compared as refusals (which error variant is reported is left open by C11) -/
def canonObs (o : String) : String := if o.startsWith "refused" then "refused" else o

def handle (l : Line) : Verdict :=
  match (l.kv.get "cls").toNat?, (l.kv.get "meth").toNat?, ofHex (l.kv.get "tid") with
  | some cls, some meth, some tid =>
    let b0 := Builder.new (Spec.interleave cls meth) (beNat tid)
    let ops := splitList ";" (l.kv.get "ops")
    match runOps cls b0 ops with
    | none => .bad "unparsable ops" ""
    | some model =>
      let got := (l.obs.splitOn ";").map canonObs
      let nRef := (model.filter (· == "refused")).length
      let sealTag := (ops.filter fun (o : String) => o.startsWith "m1" || o.startsWith "m2" || o == "fp").length
      exact s!"bld ops={min ops.length 9} refused={min nRef 3} sealops={min sealTag 3}" (";".intercalate got) (";".intercalate model)
  | _, _, _ => .bad "args" ""

end Driver.BldFam
