import Driver.Proto
import Driver.Attr
import StunVerif.Msg.Police
import StunVerif.Crypto.Hash
import StunVerif.Spec.Causes
namespace Driver.MsgFam
open StunVerif Driver

/-- the reference hash implementations of `Crypto/Hash.lean` -/
def refHashes : Hashes := ⟨Hash.hmacSha1, Hash.hmacSha256, Hash.md5⟩

def hex4 (n : Nat) : String := toHex (enc16 n)
def hex24 (n : Nat) : String := toHex (encBE 12 n)

def renderAttrs (as : List RawAttr) : String :=
  if as.isEmpty then "-" else "|".intercalate (as.map fun a => s!"{hex4 a.ty}:{hexOrDash a.value}")

def lookupTypes (m : Msg) : List Nat :=
  let present := (m.iter.map (·.ty)).eraseDups
  present ++ ([tyMI, tyMI256, tyFP, 0x0006, 0x7777].filter fun t => !present.contains t)

def renderParse (m : Msg) : String :=
  let look := (lookupTypes m).map fun t =>
    match m.rawAttribute t with
    | some a => s!"{hex4 t}:{hexOrDash a.value}:{if m.hasAttribute t then 1 else 0}"
    | none => s!"{hex4 t}:none:{if m.hasAttribute t then 1 else 0}"
  s!"ok cls={m.cls} meth={m.method} tid={hex24 m.tid} q=1111 attrs={renderAttrs m.iter} look={"|".intercalate look}"

/-- the fields of a policing response that C16 pins, read back with the Lean parser and decoders -/
def respFields (bytes : Bytes) : String :=
  match msgFromBytes bytes with
  | .error e => s!"unparsable {e.render}"
  | .ok m =>
    let code := match m.attribute .errorCode with
      | .ok (.errorCode c _) => toString c
      | .error (.missing _) => "-"
      | _ => "?"
    let unk := match m.attribute .unknownAttributes with
      | .ok (.unknownAttributes ts) => ".".intercalate (ts.map hex4)
      | .error (.missing _) => "-"
      | _ => "?"
    s!"cls={m.cls} meth={m.method} tid={hex24 m.tid} code={code} unknown={unk}"

def parseCreds (s : String) : Option Creds :=
  match s.splitOn ":" with
  | ["s", p] => (ofHex p).map .short
  | ["l", u, r, p] => do some (.long (← ofHex u) (← ofHex r) (← ofHex p))
  | _ => none

def parseTypes (s : String) : List Nat :=
  ((splitList "." s).filter (· ≠ "-")).filterMap fun (x : String) => (ofHex x).map beNat

def parseTag (r : Except PErr Msg) : String :=
  match r with
  | .ok m =>
    let n := m.allAttrs.length
    let tail := (m.allAttrs.map (·.ty)).filter fun t => endingTypes.contains t
    s!"accepted attrs={min n 5} tail={"".intercalate (tail.map fun t => if t = tyMI then "i" else if t = tyMI256 then "j" else "f")}"
  | .error e => (e.render.splitOn " ").take 2 |> " ".intercalate

def handle (l : Line) : Verdict :=
  match ofHex (l.kv.get "b") with
  | none => .bad "hex" ""
  | some b =>
  let tr := if l.kv.get "trace" == "1" then " traced" else ""
  match l.kv.get "op" with
  | "parse" =>
    let r := msgFromBytes b
    match r with
    | .ok m => exact s!"msg parse {parseTag r}{tr}" l.obs (renderParse m)
    | .error e =>
      -- a buffer malformed in more than one way: any TRUE cause may be named (C02); a cause other than
      -- the one the model's check order meets first is drift, not a disagreement
      if l.obs ≠ e.render && (Spec.causes b).any (fun c => c.render == l.obs) then
        .ok s!"msg parse other-true-cause {parseTag r}{tr}"
      else exact s!"msg parse {parseTag r}{tr}" l.obs e.render
  | "acc" =>
    let r := msgFromBytes b
    match r with
    | .ok _ => exact s!"msg acc {parseTag r}" l.obs "ok"
    | .error e =>
      if l.obs ≠ e.render && (Spec.causes b).any (fun c => c.render == l.obs) then
        .ok s!"msg acc other-true-cause {parseTag r}"
      else exact s!"msg acc {parseTag r}" l.obs e.render
  | "typed" =>
    match msgFromBytes b with
    | .error _ => exact "msg typed noparse" l.obs "noparse"
    | .ok m =>
      let model := Kind.all.map fun k =>
        match m.attribute k with
        | .ok v => s!"ok:{AttrFam.renderVal v}"
        | .error (.missing _) => "missing"
        | .error _ => "err_"
      let got := (l.obs.splitOn "|").map fun (s : String) => if s.startsWith "err_" then "err_" else s
      let nOk := (model.filter (·.startsWith "ok:")).length
      exact s!"msg typed decoded={min nOk 4}" ("|".intercalate got) ("|".intercalate model)
  | "hdr" =>
    match headerFromBytes b with
    | .ok h => exact "msg hdr ok" l.obs s!"ok ty={hex4 h.ty} len={h.len} tid={hex24 h.tid}"
    | .error e => exact s!"msg hdr {(e.render.splitOn " ").take 2 |> " ".intercalate}" l.obs e.render
  | "mt" =>
    match msgTypeFromBytes b with
    | .ok v => exact "msg mt ok" l.obs s!"ok v={hex4 v}"
    | .error e => exact s!"msg mt {(e.render.splitOn " ").take 2 |> " ".intercalate}" l.obs e.render
  | "validate" =>
    match parseCreds (l.kv.get "cred") with
    | none => .bad "creds" ""
    | some c =>
      match msgFromBytes b with
      | .error e => exact "msg validate noparse" l.obs s!"noparse {e.render}"
      | .ok m =>
        match m.validateIntegrity refHashes c with
        | .ok .sha1 => exact s!"msg validate ok sha1{tr}" l.obs "ok sha1"
        | .ok .sha256 => exact s!"msg validate ok sha256{tr}" l.obs "ok sha256"
        | .error e => exact s!"msg validate {(e.render.splitOn " ").take 2 |> " ".intercalate}{tr}" l.obs e.render
  | "police" =>
    match msgFromBytes b with
    | .error _ => exact "msg police noparse" l.obs "noparse"
    | .ok m =>
      let sup := parseTypes (l.kv.get "sup")
      let req := parseTypes (l.kv.get "req")
      let clsTag := if m.cls = 0 then "request" else "non-request"
      match checkAttributeTypes m sup req with
      | none => exact s!"msg police {clsTag} none{tr}" l.obs "none"
      | some bld =>
        let code := if (bld.attrs.map (·.ty)).contains 0x000A then 420 else
          match bld.attrs with
          | [_, .raw a] => if a.value.take 4 = [0, 0, 4, 0] then 400 else 420
          | _ => 420
        -- C16 pins the verdict and the response's class, method, transaction id, error code and (for 420)
        -- the UNKNOWN-ATTRIBUTES list; the reason phrase and any other attribute are the implementation's
        -- choice.  Compare those fields (read back with the Lean parser), not the bytes.
        let model := s!"some {bld.byteLen} {toHex bld.build}"
        if l.obs == model then .ok s!"msg police {clsTag} {code}{tr}"
        else
          match (l.obs.splitOn " ") with
          | ["some", _, hexs] =>
            match ofHex hexs with
            | some implBytes =>
              let fi := respFields implBytes
              let fm := respFields bld.build
              if fi == fm && !(fi.startsWith "unparsable") then .ok s!"msg police {clsTag} {code} other-bytes{tr}"
              else .bad "policing response differs in a pinned field" s!"{model} fields={fm} impl-fields={fi}"
            | none => .bad "hex" model
          | _ => exact s!"msg police {clsTag} {code}{tr}" l.obs model
  | "display" =>
    match msgFromBytes b with
    | .error _ => exact s!"msg display noparse{tr}" l.obs "noparse"
    | .ok _ => exact s!"msg display ok{tr}" l.obs "ok"
  | o => .bad s!"unknown op {o}" ""

end Driver.MsgFam
