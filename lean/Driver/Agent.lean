import Driver.Proto
import Driver.Msg
import StunVerif.Agent.Agent
import StunVerif.Agent.Composed
namespace Driver.AgentFam
open StunVerif StunVerif.Agent Driver

def addrs : List String :=
  ["4:c0000201:3478", "4:c0000201:3479", "6:20010db8000000000000000000000001:3478", "4:0a000001:9",
   "6:00000000000000000000ffffc0000207:3478", "4:c0000207:3478",
   "6:fe800000000000000000000000000001%2:3478", "6:fe800000000000000000000000000001%3:3478",
   "6:fe800000000000000000000000000001%3.4660:3478", "6:20010db8000000000000000000000001%0.7:3478"]
def tids : List Nat :=
  [0x01, 0x02030405060708090a0b0c0d, 0xffffffffffffffffffffffff, 0x2112a442, 0x700000000000000000000001,
   0x10000000100000000, 0x800000000000000000000001]

/-- socket address text -> injective number (family, IP, IPv6 scope id, port) -/
def addrNum (s : String) : Option Nat :=
  match s.splitOn ":" with
  | [fam, ip, port] => do
    let f ← fam.toNat?
    -- "<ip hex>[%<scope id>[.<flow label>]]": scope id and flow label are part of a socket address's identity
    let (ipHex, scope) ← match ip.splitOn "%" with
      | [h] => some (h, 0)
      | [h, sc] => (match sc.splitOn "." with
          | [a] => a.toNat?.map (h, ·)
          | [a, fl] => do some (h, (← fl.toNat?) * 2 ^ 32 + (← a.toNat?))
          | _ => none)
      | _ => none
    let i ← ofHex ipHex
    let p ← port.toNat?
    some (((f * 2 ^ 128 + beNat i) * 2 ^ 64 + scope) * 65536 + p)
  | _ => none

def addrStr (n : Nat) : String :=
  let p := n % 65536
  let r := n / 65536
  let scope := r % 2 ^ 32
  let flow := r / 2 ^ 32 % 2 ^ 32
  let r := r / 2 ^ 64
  let f := r / 2 ^ 128
  let ip := r % 2 ^ 128
  let sc := if scope = 0 && flow = 0 then "" else if flow = 0 then s!"%{scope}" else s!"%{scope}.{flow}"
  s!"{f}:{toHex (encBE (if f = 6 then 16 else 4) ip)}{sc}:{p}"

def keyCreds (k : String) : Creds :=
  if k == "3" then .long (asciiBytes "user") (asciiBytes "realm") (asciiBytes "pass:word")
  else if k == "1" then .short (asciiBytes "pšssword")   -- UTF-8 bytes (asciiBytes = toUTF8)
  else if k == "2" then .short (asciiBytes "password")
  else .short (asciiBytes ("key" ++ k))

def hexNat (s : String) : Option Nat :=
  -- transaction ids are written without leading zeros (Rust {:x}); pad to an even length
  let s' := if s.length % 2 = 1 then "0" ++ s else s
  (ofHex s').map beNat

def trStr : Transport → String
  | .udp => "udp"
  | .tcp => "tcp"

def hex24 (n : Nat) : String := toHex (encBE 12 n)

def renderTx (tx : Transmit) : String :=
  let tid := if tx.data.length ≥ 20 then toHex ((tx.data.drop 8).take 12) else "short"
  s!"tx:{tid}:{toHex tx.data}:{addrStr tx.src}:{addrStr tx.dst}:{trStr tx.transport}"

def renderOut : Out → String
  | .transmit _ tx => renderTx tx
  | .inProgress => "inprogress"
  | .protocolViolation => "violation"
  | .response => "resp"
  | .incoming => "incoming"
  | .drop => "drop"
  | .waitUntil t => s!"wait:{t}"
  | .timedOut tid => s!"timedout:{hex24 tid}"
  | .cancelled tid => s!"cancelled:{hex24 tid}"
  | .unit => "ok"

def snapshot (s : State) : String :=
  let anums := addrs.filterMap addrNum
  let v := String.ofList (anums.map fun a => if isValidatedPeer s a then '1' else '0')
  let o := String.ofList (tids.map fun t => if isOutstanding s t then '1' else '0')
  let p := tids.map fun t =>
    match peerAddress s t with
    | none => "-"
    | some a => match anums.findIdx? (· == a) with
      | some i => toString i
      | none => addrStr a
  s!"v={v} o={o} p={",".intercalate p}"

/-- the message `S` hands to `send`, rebuilt with the Lean builder model (composed check) -/
def parsePayload (payload : String) : Option (List (Nat × Bytes)) :=
  if payload.contains ':' then
    (payload.splitOn "+").mapM fun item =>
      match item.splitOn ":" with
      | [t, v] => do
        let ty ← hexNat t
        let b ← ofHex v
        some (ty, b)
      | _ => none
  else do
    let b ← ofHex payload
    some (if b.isEmpty then [] else [(0x8022, b)])

def buildSend (cls tid : Nat) (integ : String) (payload : List (Nat × Bytes)) : Option Builder := do
  let b0 := Builder.new (Spec.interleave cls 1) tid
  let b1 ← payload.foldlM (fun (b : Builder) (tv : Nat × Bytes) => (b.add (.raw ⟨tv.1, tv.2⟩)).toOption) b0
  let b2 ← match integ.splitOn ":" with
    | ["n"] => some b1
    | ["1", k] => (b1.addIntegrity MsgFam.refHashes (keyCreds k) .sha1).toOption
    | ["2", k] => (b1.addIntegrity MsgFam.refHashes (keyCreds k) .sha256).toOption
    | _ => none
  some b2

/-- the message `H` hands to `handle_stun`, rebuilt with the Lean builder model: SOFTWARE "peer",
    optional integrity, optional corruption of one HMAC bit -/
def buildIncoming (kindm : String) (tid : Nat) (sign corrupt : String) : Option Bytes := do
  -- <kind>[@<method>][+<error code>]
  let (km, code) ← match kindm.splitOn "+" with
    | [k] => some (k, none)
    | [k, c] => c.toNat?.map (k, some ·)
    | _ => none
  let (kind, meth) ← match km.splitOn "@" with
    | [k] => some (k, 1)
    | [k, m] => (hexNat m).map (k, ·)
    | _ => none
  let cls := if kind == "ok" then 2 else if kind == "err" then 3 else if kind == "req" then 0 else 1
  let b0 := Builder.new (Spec.interleave cls meth) tid
  let b1 ← (b0.add (.typed (.software (asciiBytes "peer")))).toOption
  let b1 ← match code with
    | none => some b1
    | some c => do
      let x ← (b1.add (.typed (.errorCode c (asciiBytes "x")))).toOption
      let x ← (x.add (.typed (.realm (asciiBytes "realm")))).toOption
      (x.add (.typed (.nonce (asciiBytes "nonce")))).toOption
  let (b2, signed) ← match sign.splitOn ":" with
    | ["1", k] => (b1.addIntegrity MsgFam.refHashes (keyCreds k) .sha1).toOption.map (·, true)
    | ["2", k] => (b1.addIntegrity MsgFam.refHashes (keyCreds k) .sha256).toOption.map (·, true)
    | _ => some (b1, false)
  let bytes := b2.build
  -- corrupt 5..8: an illegal-size MESSAGE-INTEGRITY-SHA256 that is a correct prefix of the HMAC under the signing key
  let trunc : Option Nat := if corrupt == "5" then some 1 else if corrupt == "6" then some 8
    else if corrupt == "7" then some 12 else if corrupt == "8" then some 18 else none
  match trunc, sign.splitOn ":" with
  | some _, ["2", "3"] =>
    let i := bytes.length - 3
    some (bytes.take i ++ [(bytes.getD i 0) ^^^ 0x40] ++ bytes.drop (i + 1))
  | some n, ["2", k] =>
    let ub := b1.build
    let input := setLen ub (ub.length + 4 + n - 20)
    let mac := (MsgFam.refHashes.hmacSha256 (hmacKey MsgFam.refHashes (keyCreds k)) input).take n
    let ext := ub ++ enc16 0x001C ++ enc16 n ++ mac
    let ext := ext ++ List.replicate ((4 - ext.length % 4) % 4) 0
    some (setLen ext (ext.length - 20))
  | _, _ =>
  let bogus : Option (Nat × Nat) :=
    if corrupt == "2" then some (0x0008, 4) else if corrupt == "3" then some (0x001C, 12)
    else if corrupt == "4" then some (0x001C, 36) else none
  match bogus, signed with
  | some (ty, n), false =>
    let ext := bytes ++ enc16 ty ++ enc16 n ++ List.replicate n 0x5a
    some (setLen ext (ext.length - 20))
  | _, _ =>
  if corrupt == "1" && signed then
    let i := bytes.length - 3
    some (bytes.take i ++ [(bytes.getD i 0) ^^^ 0x40] ++ bytes.drop (i + 1))
  else some bytes

def keyCredsNat (k : Key) : Creds := keyCreds (toString k)

structure St where
  s : State
  tag : List String := []

/-- one operation against the model, given the implementation's observation of it (needed for the
    served transaction of a poll) -/
def stepLine (st : State) (op obs : String) : Option (State × String × String) :=
  let reply := (obs.splitOn "|").headD ""
  match op.splitOn "/" with
  | ["S", tid, cls, integ, to, now, payload] => do
    let t ← hexNat tid
    let c ← cls.toNat?
    let a ← addrNum to
    let n ← now.toNat?
    let pl ← parsePayload payload
    let bld ← buildSend c t integ pl
    let (s', out) := sendMsg st bld a n
    some (s', s!"{renderOut out} built={toHex bld.build}", if c = 0 then "send-req" else "send-other")
  | ["H", kind, tid, sign, corrupt, src] => do
    let t ← hexNat tid
    let a ← addrNum src
    -- composed: the bytes are rebuilt by the Lean builder, parsed by the Lean parser, and the
    -- descriptor (response?, transaction id, integrity verdict per key) comes from the Lean codec
    let hb ← buildIncoming kind t sign corrupt
    match msgFromBytes hb with
    | .error _ => some (st, s!"noparse hb={toHex hb}", "handle-noparse")
    | .ok m =>
      let (s', out) := handleMsg MsgFam.refHashes keyCredsNat st m a
      let r := match out with
        | .response => s!"resp:{hex24 m.tid}"
        | .incoming => s!"incoming:{hex24 m.tid}"
        | o => renderOut o
      some (s', s!"{r} hb={toHex hb}", s!"handle-{renderOut out}")
  | ["P", now] => do
    let n ← now.toNat?
    -- the transaction the implementation served, if any
    let pick : Option Nat :=
      match reply.splitOn ":" with
      | "tx" :: tid :: _ => hexNat tid
      | ["timedout", tid] => hexNat tid
      | ["cancelled", tid] => hexNat tid
      | _ => none
    let (s', out) := step st (.poll n pick)
    let tag := match out with
      | .transmit _ _ => "poll-tx"
      | .timedOut _ => "poll-timedout"
      | .cancelled _ => "poll-cancelled"
      | _ => if st.out.isEmpty then "poll-idle" else "poll-wait"
    some (s', renderOut out, tag)
  | ["C", tid] => do
    let t ← hexNat tid
    if isOutstanding st t then some ((step st (.cancel t)).1, "ok", "cancel") else some (st, "notfound", "cancel-notfound")
  | ["R", tid] => do
    let t ← hexNat tid
    if isOutstanding st t then some ((step st (.cancelRtx t)).1, "ok", "cancelrtx") else some (st, "notfound", "cancelrtx-notfound")
  | ["F", tid, rto, n, last] => do
    let t ← hexNat tid
    if isOutstanding st t then
      some ((step st (.configure t (← rto.toNat?) (← n.toNat?) (← last.toNat?))).1, "ok", "configure")
    else some (st, "notfound", "configure-notfound")
  | ["L", _] => some (st, "ok", "setlocal")     -- local credentials are not part of the model: no effect
  | ["K", k] => do
    some ((step st (.setRemoteCreds (← k.toNat?))).1, "ok", "setcreds")
  | _ => none

def runLine (st : State) : List String → List String → Option (List String × List String)
  | [], _ => some ([], [])
  | op :: ops, obs =>
    let o := obs.headD ""
    match stepLine st op o with
    | none => none
    | some (st', reply, tag) =>
      match runLine st' ops obs.tail with
      | none => none
      | some (rs, tags) => some (s!"{reply}|{snapshot st'}" :: rs, tag :: tags)

def handle (l : Line) : Verdict :=
  match addrNum (l.kv.get "local") with
  | none => .bad "local" ""
  | some loc =>
    let tr := if l.kv.get "tr" == "tcp" then Transport.tcp else .udp
    let ops := splitList ";" (l.kv.get "ops")
    let obs := l.obs.splitOn ";"
    match runLine (State.init tr loc) ops obs with
    | none => .bad "unparsable ops" ""
    | some (model, tags) =>
      let count (t : String) := (tags.filter (· == t)).length
      let summary := s!"ag {trStr tr} ops={min ops.length 40 / 10 * 10}+ tx={min (count "poll-tx") 3} to={min (count "poll-timedout") 2} ca={min (count "poll-cancelled") 2} resp={min (count "handle-resp") 2} drop={min (count "handle-drop") 2} inp={min (count "handle-incoming") 1}"
      let mode := l.kv.get "mode"
      let summary := if mode == "" || mode == "plain" then summary else summary ++ " mode=" ++ mode
      exact summary l.obs (";".intercalate model)

end Driver.AgentFam
