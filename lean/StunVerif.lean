import StunVerif.Bytes
import StunVerif.Agent.Tcp
